(* Transport.v — how a client [prog] runs against a socket (definitions only).

   The socket is a list of chunks still to be delivered by recv(); the peer is a
   state machine that answers each sendall with reply bytes, which a segmenter cuts
   into chunks.  [interp] is the concrete semantics (buffer + chunks, recv limited
   to the requested size); [interp_s] is the stream semantics used as the
   segmentation-free specification. *)
From Coq Require Import List NArith Bool.
From SV Require Import Bytes Client.
Import ListNotations.
Open Scope N_scope.

Definition READ_SIZE : N := 4096.

Inductive wevent :=
| WConnect (conn : nat)
| WTls (conn : nat)
| WSend (conn : nat) (tls : bool) (data : bytes)
| WMark (conn : nat) (g : ghost).

Inductive outcome :=
| ODone (v : value) (st : cstate)
| OFail (e : exn) (st : cstate).

(* recv(n) on a non-empty head chunk c *)
Definition recv_split (n : N) (c : bytes) (t : list bytes) : bytes * list bytes :=
  if blen c <=? n then (c, t) else (firstn (N.to_nat n) c, skipn (N.to_nat n) c :: t).

Inductive rlr :=
| RLok (line rest : bytes) (cs : list bytes)
| RLtimeout (b : bytes)          (* everything received so far stays in the buffer *)
| RLclosed (b : bytes)
| RLfuel.

(* the loop of __read_line over buffer b and pending chunks cs *)
Fixpoint rl (fuel : nat) (b : bytes) (cs : list bytes) : rlr :=
  match split_crlf b with
  | Some (line, rest) => RLok line rest cs
  | None =>
      match fuel with
      | O => RLfuel
      | S f =>
          match cs with
          | [] => RLtimeout b
          | [] :: _ => RLclosed b
          | c :: t => let '(d, cs') := recv_split READ_SIZE c t in rl f (b ++ d) cs'
          end
      end
  end.

Inductive rbr :=
| RBok (data : bytes) (cs : list bytes)
| RBtimeout
| RBclosed
| RBfuel.

(* the loop of __read_block once the buffer is exhausted *)
Fixpoint rb_loop (fuel : nat) (size : N) (acc : bytes) (cs : list bytes) : rbr :=
  if size =? 0 then RBok acc cs
  else match fuel with
       | O => RBfuel
       | S f =>
           match cs with
           | [] => RBtimeout
           | [] :: _ => RBclosed
           | c :: t =>
               let '(d, cs') := recv_split size c t in
               rb_loop f (size - blen d) (acc ++ d) cs'
           end
       end.

Definition total_len (cs : list bytes) : nat := length (concat cs).

Section Interp.
  Variable S : Type.                               (* peer state *)
  Variable react : S -> bytes -> S * bytes.        (* reply bytes to one sendall *)
  Variable on_connect : S -> option (S * bytes).   (* greeting, or connection refused *)
  Variable on_tls : S -> option (S * bytes).       (* handshake ok (+ bytes sent after it), or SSLError *)
  Variable seg : nat -> bytes -> list bytes.       (* how the n-th batch of reply bytes is cut *)

  Record world := mkW {
    w_peer : S;
    w_buf : bytes;
    w_chunks : list bytes;
    w_n : nat;
    w_conn : nat;
    w_tls : bool;
    w_log : list wevent     (* most recent first *)
  }.

  Definition w_set_io (b : bytes) (cs : list bytes) (w : world) : world :=
    mkW (w_peer w) b cs (w_n w) (w_conn w) (w_tls w) (w_log w).

  Fixpoint interp (p : prog) (w : world) : outcome * world :=
    match p with
    | Done v st => (ODone v st, w)
    | Fail e st => (OFail e st, w)
    | RdLine st k =>
        match rl (Datatypes.S (total_len (w_chunks w))) (w_buf w) (w_chunks w) with
        | RLok line rest cs => interp (k line) (w_set_io rest cs w)
        | RLtimeout b => (OFail ExTimeout st, w_set_io b [] w)
        | RLclosed b => (OFail ExClosed st, w_set_io b (tl (w_chunks w)) w)
        | RLfuel => (OFail ExOutOfFuel st, w)
        end
    | RdBlock st n k =>
        let limit := N.min n (blen (w_buf w)) in
        let pre := firstn (N.to_nat limit) (w_buf w) in
        let b' := skipn (N.to_nat limit) (w_buf w) in
        match rb_loop (Datatypes.S (total_len (w_chunks w))) (n - limit) pre (w_chunks w) with
        | RBok data cs => interp (k data) (w_set_io b' cs w)
        | RBtimeout => (OFail ExTimeout st, w_set_io b' [] w)
        | RBclosed => (OFail ExClosed st, w_set_io b' [] w)
        | RBfuel => (OFail ExOutOfFuel st, w)
        end
    | Send data k =>
        let '(s', reply) := react (w_peer w) data in
        interp k (mkW s' (w_buf w) (w_chunks w ++ seg (w_n w) reply) (Datatypes.S (w_n w))
                      (w_conn w) (w_tls w) (WSend (w_conn w) (w_tls w) data :: w_log w))
    | Connect st k =>
        match on_connect (w_peer w) with
        | None => (OFail ExConnFail st, w)
        | Some (s', greeting) =>
            interp k (mkW s' [] (seg (w_n w) greeting) (Datatypes.S (w_n w))
                          (Datatypes.S (w_conn w)) false (WConnect (Datatypes.S (w_conn w)) :: w_log w))
        end
    | TlsWrap st k =>
        match on_tls (w_peer w) with
        | None => (OFail ExSsl st, w)
        | Some (s', after) =>
            (* plaintext still buffered or in flight is not part of the TLS stream *)
            interp k (mkW s' [] (seg (w_n w) after) (Datatypes.S (w_n w))
                          (w_conn w) true (WTls (w_conn w) :: w_log w))
        end
    | Mark g k =>
        interp k (mkW (w_peer w) (w_buf w) (w_chunks w) (w_n w) (w_conn w) (w_tls w)
                      (WMark (w_conn w) g :: w_log w))
    end.

  (* ---------------- stream semantics: no buffer, no chunks, no recv sizes *)

  Record sworld := mkSW {
    s_peer : S;
    s_stream : bytes;       (* bytes the peer has sent and the client has not consumed *)
    s_n : nat;
    s_conn : nat;
    s_tls : bool;
    s_log : list wevent
  }.

  Definition s_set (b : bytes) (w : sworld) : sworld :=
    mkSW (s_peer w) b (s_n w) (s_conn w) (s_tls w) (s_log w).

  Fixpoint interp_s (p : prog) (w : sworld) : outcome * sworld :=
    match p with
    | Done v st => (ODone v st, w)
    | Fail e st => (OFail e st, w)
    | RdLine st k =>
        match split_crlf (s_stream w) with
        | Some (line, rest) => interp_s (k line) (s_set rest w)
        | None => (OFail ExTimeout st, w)
        end
    | RdBlock st n k =>
        if n <=? blen (s_stream w)
        then interp_s (k (firstn (N.to_nat n) (s_stream w))) (s_set (skipn (N.to_nat n) (s_stream w)) w)
        else (OFail ExTimeout st, w)
    | Send data k =>
        let '(s', reply) := react (s_peer w) data in
        interp_s k (mkSW s' (s_stream w ++ reply) (Datatypes.S (s_n w)) (s_conn w) (s_tls w)
                         (WSend (s_conn w) (s_tls w) data :: s_log w))
    | Connect st k =>
        match on_connect (s_peer w) with
        | None => (OFail ExConnFail st, w)
        | Some (s', greeting) =>
            interp_s k (mkSW s' greeting (Datatypes.S (s_n w)) (Datatypes.S (s_conn w)) false
                             (WConnect (Datatypes.S (s_conn w)) :: s_log w))
        end
    | TlsWrap st k =>
        match on_tls (s_peer w) with
        | None => (OFail ExSsl st, w)
        | Some (s', after) =>
            interp_s k (mkSW s' after (Datatypes.S (s_n w)) (s_conn w) true
                             (WTls (s_conn w) :: s_log w))
        end
    | Mark g k =>
        interp_s k (mkSW (s_peer w) (s_stream w) (s_n w) (s_conn w) (s_tls w)
                         (WMark (s_conn w) g :: s_log w))
    end.

  Definition abs (w : world) : sworld :=
    mkSW (w_peer w) (w_buf w ++ concat (w_chunks w)) (w_n w) (w_conn w) (w_tls w) (w_log w).

End Interp.
