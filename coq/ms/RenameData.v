(* RenameData.v — property C14: the emulated RENAMESCRIPT at the byte level refines the abstract rename.

   For a conforming reference server that does not announce VERSION (no fault injected), the client's emulation
   -- LISTSCRIPTS, GETSCRIPT old, PUTSCRIPT new, [SETACTIVE new,] DELETESCRIPT old, with the checks in between --
   run by the stream semantics with every choice of reply encodings, returns exactly what [RenameAbs.rename_abs]
   computes on the server's abstract state and leaves the server with exactly that store and active script, both
   buffers empty.  The safety statements of C14 (RenameFacts) are about [rename_abs]; this is the tie.  Fault
   plans (NO / BYE / silence at each step) are tied by the exhaustive enumeration of the check. *)
From Coq Require Import String.
From Coq Require Import List NArith Bool Arith Lia.
From SV Require Import Bytes Base64 Client Transport Server Session WriterFacts StatusFacts DecodeFacts DataFacts
  SessionFacts SessionData RenameAbs.
Import ListNotations.
Local Open Scope nat_scope.

Definition same_data (s t : sstate) : Prop :=
  s_store t = s_store s /\ s_active t = s_active s /\ s_cfg t = s_cfg s.

Lemma same_data_refl : forall s, same_data s s.
Proof. intro s. repeat split. Qed.

Lemma same_data_trans : forall a b c, same_data a b -> same_data b c -> same_data a c.
Proof. intros a b c (A1 & A2 & A3) (B1 & B2 & B3). repeat split; congruence. Qed.

(* exec_command looks at the store, the active script and the configuration only *)
Lemma exec_congr : forall verb args s t,
  same_data s t ->
  match exec_command verb args s, exec_command verb args t with
  | Some (a, s'), Some (b, t') => a = b /\ same_data s' t'
  | None, None => True
  | _, _ => False
  end.
Proof.
  intros verb args s t (H1 & H2 & H3). unfold exec_command. rewrite H1, H2, H3.
  repeat match goal with
         | |- context [match ?x with _ => _ end] =>
             match x with
             | context [match _ with _ => _ end] => fail 1
             | _ => destruct x
             end
         end; cbn; try exact I; try (split; [reflexivity|repeat split; cbn; auto]).
Qed.

(* ------------------------------------------------------------------ what the client reads from a listing *)

Lemma beq_refl_b : forall a, beq a a = true.
Proof. induction a as [|x a IH]; cbn; [reflexivity|]. rewrite N.eqb_refl, IH. reflexivity. Qed.

Lemma beq_true_eq : forall a b, beq a b = true -> a = b.
Proof.
  induction a as [|x a IH]; intros [|y b] H; cbn in H; try discriminate; [reflexivity|].
  apply andb_true_iff in H as [H1 H2]. apply N.eqb_eq in H1. subst. f_equal. apply IH. exact H2.
Qed.

Lemma beq_comm : forall a b, beq a b = beq b a.
Proof.
  intros a b. destruct (beq a b) eqn:E.
  - apply beq_true_eq in E. subst. symmetry. apply beq_refl_b.
  - destruct (beq b a) eqn:E2; [|reflexivity]. apply beq_true_eq in E2. subst. rewrite beq_refl_b in E. discriminate.
Qed.

Lemma listing_active_eq : forall store active,
  last_active (listing_entries store active) =
  match active with Some a => if mem a (map fst store) then Some a else None | None => None end.
Proof.
  intros store active. induction store as [|[n c] t IH]; [destruct active; reflexivity|].
  cbn [listing_entries map last_active fst snd]. unfold listing_entries in IH. rewrite IH.
  destruct active as [a|]; [|reflexivity]. cbn [mem opt_beq].
  destruct (mem a (map fst t)); [rewrite orb_true_r; reflexivity|]. rewrite orb_false_r, (beq_comm a n).
  destruct (beq n a) eqn:E; [apply beq_true_eq in E; subst; reflexivity|reflexivity].
Qed.

Lemma listing_others_eq : forall store active,
  map fst (filter (fun e => negb (snd e)) (listing_entries store active)) =
  filter (fun n => negb (opt_beq (Some n) active)) (map fst store).
Proof.
  intros store active. induction store as [|[n c] t IH]; [reflexivity|].
  cbn [listing_entries map filter fst snd]. unfold listing_entries in IH.
  destruct (negb (opt_beq (Some n) active)); cbn [map fst]; rewrite IH; reflexivity.
Qed.

Lemma listing_of_eq : forall s,
  (last_active (listing_entries (s_store s) (s_active s)),
   map fst (filter (fun e => negb (snd e)) (listing_entries (s_store s) (s_active s)))) = listing_of s.
Proof.
  intro s. unfold listing_of, listing_active, listing_others. rewrite listing_active_eq, listing_others_eq. reflexivity.
Qed.

(* ------------------------------------------------------------------ one single-status step of the emulation *)

Definition ok_world (w : sworld sstate) : Prop := s_stream sstate w = [] /\ conforming (s_peer sstate w).

Lemma booked_same_data : forall verb pargs s, same_data s (booked verb pargs s).
Proof. intros. repeat split. Qed.

Lemma step_simple : forall f verb args st (w : sworld sstate) sabs a sabs' (k : kont),
  In verb simple_verbs -> ok_world w -> same_data sabs (s_peer sstate w) ->
  exec_command verb (map decode_arg args) sabs = Some (a, sabs') ->
  exists c w',
    runS (simple_cmd (S f) verb args st k) w = runS (k (answer_state a c st) (VBool (answer_bool a))) w' /\
    ok_world w' /\ same_data sabs' (s_peer sstate w').
Proof.
  intros f verb args st w sabs a sabs' k Hv (Hs & Hc) Hsd Hex.
  pose proof (exec_congr verb (map decode_arg args) sabs (booked verb (map decode_arg args) (s_peer sstate w))
                (same_data_trans _ _ _ Hsd (booked_same_data _ _ _))) as Hcg.
  rewrite Hex in Hcg.
  destruct (exec_command verb (map decode_arg args) (booked verb (map decode_arg args) (s_peer sstate w))) as [[b s2]|] eqn:E2; [|contradiction].
  destruct Hcg as (<- & Hsd2).
  destruct (simple_cmd_against_server_k f verb args st w a s2 k Hv Hs Hc E2) as (c & s3 & Hp & Hc3 & Hst & Hac & Hcfg & Hrun).
  exists c. eexists. split; [exact Hrun|]. split; [split; [reflexivity|exact Hc3]|].
  cbn [s_peer]. destruct Hsd2 as (D1 & D2 & D3). destruct Hsd as (_ & _ & D6).
  repeat split; try congruence.
  rewrite Hcfg, D6. pose proof (exec_preserves _ _ _ _ _ Hex) as (_ & _ & _ & X). symmetry. exact X.
Qed.

(* the end-to-end theorems with a fuel bound instead of a fuel shape *)
Lemma listscripts_fuel : forall F st (w : sworld sstate) (k : kont),
  c_auth st = true -> ok_world w -> names_ok (s_peer sstate w) -> length (s_store (s_peer sstate w)) < F ->
  exists w',
    runS (listscripts F st k) w = runS (k st (VListing (fst (listing_of (s_peer sstate w))) (snd (listing_of (s_peer sstate w))))) w' /\
    ok_world w' /\ same_data (s_peer sstate w) (s_peer sstate w').
Proof.
  intros F st w k Ha (Hs & Hc) Hn HF.
  assert (E : F = S (length (s_store (s_peer sstate w)) + (F - 1 - length (s_store (s_peer sstate w))))) by lia.
  rewrite E.
  destruct (listscripts_against_server_k (F - 1 - length (s_store (s_peer sstate w))) st w k Ha Hs Hc Hn)
    as (s3 & R & C3 & S1 & S2 & S3 & _).
  eexists. split; [rewrite R, <- listing_of_eq; reflexivity|].
  split; [split; [reflexivity|exact C3]|]. repeat split; assumption.
Qed.

Lemma getscript_fuel : forall F name content st (w : sworld sstate) (k : kont),
  c_auth st = true -> ok_world w -> assoc_get name (s_store (s_peer sstate w)) = Some content -> 3 <= F ->
  exists w',
    runS (getscript F name st k) w = runS (k st (VBytes (norm content))) w' /\
    ok_world w' /\ same_data (s_peer sstate w) (s_peer sstate w').
Proof.
  intros F name content st w k Ha (Hs & Hc) Hg HF.
  assert (E : F = S (S (S (F - 3)))) by lia. rewrite E.
  destruct (getscript_against_server_k (F - 3) name content st w k Ha Hs Hc Hg) as (s3 & R & C3 & S1 & S2 & S3 & _).
  eexists. split; [rewrite R; reflexivity|]. split; [split; [reflexivity|exact C3]|]. repeat split; assumption.
Qed.

Lemma simple_fuel : forall F verb args st (w : sworld sstate) sabs a sabs' (k : kont),
  In verb simple_verbs -> ok_world w -> same_data sabs (s_peer sstate w) ->
  exec_command verb (map decode_arg args) sabs = Some (a, sabs') -> 1 <= F ->
  exists c w',
    runS (simple_cmd F verb args st k) w = runS (k (answer_state a c st) (VBool (answer_bool a))) w' /\
    ok_world w' /\ same_data sabs' (s_peer sstate w').
Proof.
  intros F verb args st w sabs a sabs' k Hv Hw Hsd Hex HF.
  assert (E : F = S (F - 1)) by lia. rewrite E. apply (step_simple (F - 1) verb args st w sabs a sabs' k Hv Hw Hsd Hex).
Qed.


(* exec_command on the commands of the emulation *)
Lemma exec_put : forall n c s,
  exec_command (bs "PUTSCRIPT") [PStr n; PStr c] s =
  if (cfg_maxsize (s_cfg s) <? blen c)%N then Some (AnsNO (Some (bs "QUOTA/MAXSIZE")), s)
  else if negb (match assoc_get n (s_store s) with Some _ => true | None => false end)
          && Nat.leb (cfg_maxscripts (s_cfg s)) (List.length (s_store s))
       then Some (AnsNO (Some (bs "QUOTA/MAXSCRIPTS")), s)
       else Some (AnsOK None, upd_store (assoc_set n c (s_store s)) (s_active s) s).
Proof. intros. unfold exec_command. eval_beq. reflexivity. Qed.

Lemma exec_del : forall n s,
  exec_command (bs "DELETESCRIPT") [PStr n] s =
  if negb (match assoc_get n (s_store s) with Some _ => true | None => false end) then Some (AnsNO (Some (bs "NONEXISTENT")), s)
  else if opt_beq (Some n) (s_active s) then Some (AnsNO (Some (bs "ACTIVE")), s)
       else Some (AnsOK None, upd_store (assoc_del n (s_store s)) (s_active s) s).
Proof. intros. unfold exec_command. eval_beq. reflexivity. Qed.

Lemma exec_set : forall n s,
  exec_command (bs "SETACTIVE") [PStr n] s =
  match n with
  | [] => Some (AnsOK None, upd_store (s_store s) None s)
  | _ => if (match assoc_get n (s_store s) with Some _ => true | None => false end)
         then Some (AnsOK None, upd_store (s_store s) (Some n) s)
         else Some (AnsNO (Some (bs "NONEXISTENT")), s)
  end.
Proof. intros. unfold exec_command. eval_beq. reflexivity. Qed.

Lemma exec_get : forall n s,
  exec_command (bs "GETSCRIPT") [PStr n] s =
  match assoc_get n (s_store s) with
  | Some c => Some (AnsScript c, s)
  | None => Some (AnsNO (Some (bs "NONEXISTENT")), s)
  end.
Proof. intros. unfold exec_command. eval_beq. reflexivity. Qed.

Lemma exec_simple_shape : forall verb args s a s',
  In verb [bs "PUTSCRIPT"; bs "DELETESCRIPT"; bs "SETACTIVE"] ->
  exec_command verb args s = Some (a, s') ->
  (exists code, a = AnsOK code) \/ (exists code, a = AnsNO code /\ s' = s).
Proof.
  intros verb args s a s' Hv H. cbn [In] in Hv. unfold exec_command in H.
  repeat (destruct Hv as [<-|Hv]; [revert H; eval_beq; cbv iota;
          repeat match goal with
                 | |- context [match ?x with _ => _ end] =>
                     match x with
                     | context [match _ with _ => _ end] => fail 1
                     | _ => destruct x
                     end
                 end; intro H; try discriminate; inversion H; subst; eauto|]).
  destruct Hv.
Qed.

(* ------------------------------------------------------------------ the emulation refines the abstract rename *)

Definition aresult_of (o : outcome) : option aresult :=
  match o with
  | ODone (VBool true) _ => Some RTrue
  | ODone (VBool false) _ => Some RFalse
  | _ => None
  end.

Lemma mem_assoc_some : forall n (store : list (bytes * bytes)), mem n (map fst store) = true -> exists c, assoc_get n store = Some c.
Proof.
  induction store as [|[k v] t IH]; cbn; intro H; [discriminate|].
  destruct (beq n k) eqn:E; [eauto|]. cbn in H. apply IH. exact H.
Qed.

Lemma in_listing_exists : forall s n,
  negb (opt_beq (Some n) (listing_active s)) && negb (mem n (listing_others s)) = false ->
  exists c, assoc_get n (s_store s) = Some c.
Proof.
  intros s n H. apply mem_assoc_some.
  apply andb_false_iff in H. destruct H as [H|H]; apply negb_false_iff in H.
  - unfold listing_active in H. destruct (s_active s) as [a|]; [|discriminate].
    destruct (mem a (map fst (s_store s))) eqn:Em; [|discriminate]. cbn in H. apply beq_true_eq in H. subst. exact Em.
  - unfold listing_others in H. clear -H. induction (map fst (s_store s)) as [|x l IH]; [discriminate|].
    cbn [filter] in H. cbn [mem]. destruct (negb (opt_beq (Some x) (s_active s))).
    + cbn [mem] in H. apply orb_true_iff in H. destruct H as [H|H]; [rewrite H; reflexivity|rewrite (IH H), orb_true_r; reflexivity].
    + rewrite (IH H), orb_true_r. reflexivity.
Qed.

Lemma listing_of_same_data : forall s t, same_data s t -> listing_of t = listing_of s.
Proof.
  intros s t (A & B & _). unfold listing_of, listing_active, listing_others. rewrite A, B. reflexivity.
Qed.

(* stated against an abstract state that agrees with the server on store, active script and configuration *)
Theorem rename_emulated_refines_st : forall F old new st (w : sworld sstate) s,
  c_auth st = true -> has_cap (bs "VERSION") st = false -> ok_world w -> same_data s (s_peer sstate w) ->
  names_ok s -> length (s_store s) < F -> 3 <= F ->
  exists out w',
    runS (renamescript F old new st finish) w = (out, w') /\
    aresult_of out = Some (fst (rename_abs (fun _ => FNone) s old new)) /\
    ok_world w' /\ same_data (snd (rename_abs (fun _ => FNone) s old new)) (s_peer sstate w') /\
    c_auth (outcome_state out) = true /\ c_caps (outcome_state out) = c_caps st.
Proof.
  intros F old new st w s Ha Hver Hw D0 Hn HF1 HF3.
  unfold renamescript, auth_required. rewrite Ha, Hver.
  (* LISTSCRIPTS *)
  assert (Hn0 : names_ok (s_peer sstate w)) by (unfold names_ok in *; destruct D0 as (X & _); rewrite X; exact Hn).
  assert (HF0 : length (s_store (s_peer sstate w)) < F) by (destruct D0 as (X & _); rewrite X; exact HF1).
  match goal with |- context [listscripts F st ?k0] => destruct (listscripts_fuel F st w k0 Ha Hw Hn0 HF0) as (w1 & R1 & Hw1 & D1') end. rewrite R1. clear R1.
  rewrite (listing_of_same_data _ _ D0).
  pose proof (same_data_trans _ _ _ D0 D1') as D1. clear D1'.
  unfold rename_abs. cbn [run_cmd]. change (exec_command (bs "LISTSCRIPTS") [] s) with (Some (AnsListing, s)). cbv iota.
  destruct (listing_of s) as [active others] eqn:El. cbn [fst snd].
  assert (Hla : listing_active s = active) by (unfold listing_of in El; congruence).
  assert (Hlo : listing_others s = others) by (unfold listing_of in El; congruence).
  destruct (negb (opt_beq (Some old) active) && negb (mem old others)) eqn:Eold.
  { (* the old script does not exist *)
    eexists. eexists. split; [reflexivity|]. split; [reflexivity|]. split; [exact Hw1|]. split; [exact D1|]. cbn; auto. }
  destruct (opt_beq (Some new) active || mem new others) eqn:Enew.
  { eexists. eexists. split; [reflexivity|]. split; [reflexivity|]. split; [exact Hw1|]. split; [exact D1|]. cbn; auto. }
  (* GETSCRIPT old *)
  rewrite <- Hla, <- Hlo in Eold. destruct (in_listing_exists s old Eold) as (c & Hget).
  assert (Hget1 : assoc_get old (s_store (s_peer sstate w1)) = Some c) by (destruct D1 as (X & _); rewrite X; exact Hget).
  match goal with |- context [getscript F old st ?k0] => destruct (getscript_fuel F old c st w1 k0 Ha Hw1 Hget1 HF3) as (w2 & R2 & Hw2 & D2) end. rewrite R2. clear R2.
  pose proof (same_data_trans _ _ _ D1 D2) as D12.
  assert (Egs : exec_command (bs "GETSCRIPT") [PStr old] s = Some (AnsScript c, s)).
  { rewrite exec_get, Hget. reflexivity. }
  rewrite Egs. cbv iota.
  (* PUTSCRIPT new *)
  unfold putscript, auth_required. rewrite Ha.
  destruct (exec_command (bs "PUTSCRIPT") [PStr new; PStr (norm c)] s) as [[a3 s3]|] eqn:Eput.
  2:{ exfalso. revert Eput. rewrite exec_put.
      repeat match goal with |- (if ?c then _ else _) = _ -> _ => destruct c end; intro X; discriminate X. }
  match goal with |- context [simple_cmd F (bs "PUTSCRIPT") _ st ?k0] =>
    destruct (simple_fuel F (bs "PUTSCRIPT") [AStr new; ALit (norm c)] st w2 s a3 s3 k0 ltac:(cbn; tauto) Hw2 D12 Eput ltac:(lia))
      as (c3 & w3 & R3 & Hw3 & D3) end. rewrite R3. clear R3.
  destruct (exec_simple_shape (bs "PUTSCRIPT") _ _ _ _ ltac:(cbn; tauto) Eput) as [(code3 & ->)|(code3 & -> & ->)]; cbn [answer_bool answer_state].
  2:{ eexists. eexists. split; [reflexivity|]. split; [reflexivity|]. split; [exact Hw3|]. split; [exact D3|]. cbn; auto. }
  (* the copy exists: activate it if the old one was active, then delete the old one *)
  assert (Hdel : forall st0 (w0 : sworld sstate) sabs,
            c_auth st0 = true -> ok_world w0 -> same_data sabs (s_peer sstate w0) ->
            exists out w',
              runS (deletescript F old st0 (fun st1 v => match v with
                                                          | VBool true => finish st1 (VBool true)
                                                          | _ => finish st1 (VBool false)
                                                          end)) w0 = (out, w') /\
              aresult_of out = Some (fst (rename_del FNone sabs old)) /\ ok_world w' /\
              same_data (snd (rename_del FNone sabs old)) (s_peer sstate w') /\
              c_auth (outcome_state out) = true /\ c_caps (outcome_state out) = c_caps st0).
  { intros st0 w0 sabs Ha0 Hw0 Hd0. unfold deletescript, auth_required. rewrite Ha0. unfold rename_del, run_cmd.
    destruct (exec_command (bs "DELETESCRIPT") [PStr old] sabs) as [[a5 s5]|] eqn:Edel.
    2:{ exfalso. revert Edel. rewrite exec_del. repeat match goal with |- (if ?c then _ else _) = _ -> _ => destruct c end; intro X; discriminate X. }
    match goal with |- context [simple_cmd F (bs "DELETESCRIPT") _ st0 ?k0] =>
      destruct (simple_fuel F (bs "DELETESCRIPT") [AStr old] st0 w0 sabs a5 s5 k0 ltac:(cbn; tauto) Hw0 Hd0 Edel ltac:(lia))
        as (c5 & w5 & R5 & Hw5 & D5) end. rewrite R5.
    destruct (exec_simple_shape (bs "DELETESCRIPT") _ _ _ _ ltac:(cbn; tauto) Edel) as [(code5 & ->)|(code5 & -> & ->)]; cbn [answer_bool answer_state];
      eexists; eexists; (split; [reflexivity|]); (split; [reflexivity|]); (split; [exact Hw5|]); (split; [exact D5|]); cbn; auto. }
  rewrite <- Hla.
  destruct (opt_beq (listing_active s) (Some old)) eqn:Eact.
  - (* SETACTIVE new *)
    unfold setactive, auth_required. rewrite Ha.
    destruct (exec_command (bs "SETACTIVE") [PStr new] s3) as [[a4 s4]|] eqn:Eset.
    2:{ exfalso. revert Eset. rewrite exec_set. destruct new; [intro X; discriminate X|].
        repeat match goal with |- (if ?c then _ else _) = _ -> _ => destruct c end; intro X; discriminate X. }
    match goal with |- context [simple_cmd F (bs "SETACTIVE") _ st ?k0] =>
      destruct (simple_fuel F (bs "SETACTIVE") [AStr new] st w3 s3 a4 s4 k0 ltac:(cbn; tauto) Hw3 D3 Eset ltac:(lia))
        as (c4 & w4 & R4 & Hw4 & D4) end. rewrite R4. clear R4.
    destruct (exec_simple_shape (bs "SETACTIVE") _ _ _ _ ltac:(cbn; tauto) Eset) as [(code4 & ->)|(code4 & -> & ->)]; cbn [answer_bool answer_state].
    + apply (Hdel st w4 s4 Ha Hw4 D4).
    + eexists. eexists. split; [reflexivity|]. split; [reflexivity|]. split; [exact Hw4|]. split; [exact D4|]. cbn; auto.
  - apply (Hdel st w3 s3 Ha Hw3 D3).
Qed.

Theorem rename_emulated_refines : forall F old new st (w : sworld sstate),
  c_auth st = true -> has_cap (bs "VERSION") st = false -> ok_world w -> names_ok (s_peer sstate w) ->
  length (s_store (s_peer sstate w)) < F -> 3 <= F ->
  let s := s_peer sstate w in
  exists out w',
    runS (renamescript F old new st finish) w = (out, w') /\
    aresult_of out = Some (fst (rename_abs (fun _ => FNone) s old new)) /\
    ok_world w' /\ same_data (snd (rename_abs (fun _ => FNone) s old new)) (s_peer sstate w').
Proof.
  intros F old new st w Ha Hver Hw Hn HF1 HF3 s.
  destruct (rename_emulated_refines_st F old new st w s Ha Hver Hw (same_data_refl _) Hn HF1 HF3) as (out & w' & R & A & W & D & _).
  exists out, w'. auto.
Qed.

Print Assumptions rename_emulated_refines.
