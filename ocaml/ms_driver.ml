(* ms_driver.ml — line-oriented driver around the extracted ManageSieve model.
   One request per line, one reply line per request.  Byte strings travel as
   'x' followed by hex digits ("x" alone is the empty string); "-" is None.
   The extracted module is never opened (it defines its own string type). *)
module M = Ms_model

let rec pos_of_int i =
  if i = 1 then M.XH
  else if i land 1 = 0 then M.XO (pos_of_int (i lsr 1))
  else M.XI (pos_of_int (i lsr 1))
let n_of_int i = if i = 0 then M.N0 else M.Npos (pos_of_int i)
let rec int_of_pos = function
  | M.XH -> 1
  | M.XO p -> 2 * int_of_pos p
  | M.XI p -> 2 * int_of_pos p + 1
let int_of_n = function M.N0 -> 0 | M.Npos p -> int_of_pos p
let rec nat_of_int i = if i <= 0 then M.O else M.S (nat_of_int (i - 1))
let rec int_of_nat = function M.O -> 0 | M.S n -> 1 + int_of_nat n

let bytes_of_string (s : string) : M.bytes =
  List.init (String.length s) (fun i -> n_of_int (Char.code s.[i]))
let string_of_bytes (b : M.bytes) : string =
  let buf = Buffer.create 64 in
  List.iter (fun n -> Buffer.add_char buf (Char.chr ((int_of_n n) land 255))) b;
  Buffer.contents buf

let hexdig = "0123456789abcdef"
let hex_of_string s =
  let buf = Buffer.create (1 + 2 * String.length s) in
  Buffer.add_char buf 'x';
  String.iter (fun c -> let k = Char.code c in
                Buffer.add_char buf hexdig.[k lsr 4]; Buffer.add_char buf hexdig.[k land 15]) s;
  Buffer.contents buf
let hv c = match c with
  | '0'..'9' -> Char.code c - 48
  | 'a'..'f' -> Char.code c - 87
  | 'A'..'F' -> Char.code c - 55
  | _ -> failwith "bad hex"
let string_of_hex t =
  if String.length t = 0 || t.[0] <> 'x' then failwith ("bad hex token " ^ t);
  let n = (String.length t - 1) / 2 in
  String.init n (fun i -> Char.chr (hv t.[1 + 2 * i] * 16 + hv t.[2 + 2 * i]))
let hb (b : M.bytes) = hex_of_string (string_of_bytes b)
let bh (t : string) : M.bytes = bytes_of_string (string_of_hex t)
let obh t = if t = "-" then None else Some (bh t)
let ohb = function None -> "-" | Some b -> hb b

let split_on c s = if s = "-" || s = "" then [] else String.split_on_char c s

(* ---------------------------------------------------------------- printing *)

let exn_name = function
  | M.ExTimeout -> "Timeout" | M.ExClosed -> "Closed" | M.ExBye -> "Bye"
  | M.ExBadMsg -> "BadMsg" | M.ExAuthReq -> "AuthReq" | M.ExConnFail -> "ConnFail"
  | M.ExNoTls -> "NoTls" | M.ExSsl -> "Ssl" | M.ExNoSasl -> "NoSasl"
  | M.ExRawResponse -> "RawResponse" | M.ExRawLiteral -> "RawLiteral"
  | M.ExNotImpl -> "NotImpl" | M.ExType -> "Type" | M.ExIndex -> "Index"
  | M.ExAttr -> "Attr" | M.ExOutOfFuel -> "OutOfFuel"

let value_str = function
  | M.VNone -> "none"
  | M.VBool true -> "true"
  | M.VBool false -> "false"
  | M.VBytes b -> "b:" ^ hb b
  | M.VListing (a, o) -> "l:" ^ ohb a ^ ":" ^ (match o with [] -> "-" | _ -> String.concat "," (List.map hb o))

let cstate_str (st : M.cstate) =
  Printf.sprintf "auth=%d errcode=%s errmsg=%s" (if st.M.c_auth then 1 else 0)
    (ohb st.M.c_errcode) (hb st.M.c_errmsg)

let outcome_str = function
  | M.ODone (v, st) -> "D:" ^ value_str v ^ " " ^ cstate_str st
  | M.OFail (e, st) -> "F:" ^ exn_name e ^ " " ^ cstate_str st

let outcome_state = function M.ODone (_, st) -> st | M.OFail (_, st) -> st

let event_str = function
  | M.WConnect c -> Printf.sprintf "C%d" (int_of_nat c)
  | M.WTls c -> Printf.sprintf "T%d" (int_of_nat c)
  | M.WSend (c, tls, d) -> Printf.sprintf "S%d:%d:%s" (int_of_nat c) (if tls then 1 else 0) (hb d)
  | M.WMark c -> Printf.sprintf "M%d" (int_of_nat c)

let parg_str = function
  | M.PStr s -> "s:" ^ hb s
  | M.PNum n -> "n:" ^ string_of_int (int_of_n n)

let presult_str = function
  | M.PMore -> "more"
  | M.PBad -> "bad"
  | M.PCmd (v, args, rest) ->
      Printf.sprintf "cmd %s %s rest=%s" (hb v)
        (match args with [] -> "-" | _ -> String.concat "," (List.map parg_str args)) (hb rest)
  | M.PCont (s, rest) -> Printf.sprintf "cont %s rest=%s" (hb s) (hb rest)

(* ---------------------------------------------------------------- parsing requests *)

let fault_of = function
  | "no" -> M.FNo | "bye" -> M.FBye | "silent" -> M.FSilent | _ -> M.FNone

let parse_op (t : string list) : M.op =
  match t with
  | ["connect"; l; p; a; tls; mech] -> M.OConnect (bh l, bh p, bh a, tls = "1", obh mech)
  | ["logout"] -> M.OLogout
  | ["capability"] -> M.OCapability
  | ["havespace"; n; sz] -> M.OHavespace (bh n, n_of_int (int_of_string sz))
  | ["listscripts"] -> M.OListscripts
  | ["getscript"; n] -> M.OGetscript (bh n)
  | ["putscript"; n; c] -> M.OPutscript (bh n, bh c)
  | ["deletescript"; n] -> M.ODeletescript (bh n)
  | ["renamescript"; a; b] -> M.ORenamescript (bh a, bh b)
  | ["setactive"; n] -> M.OSetactive (bh n)
  | ["checkscript"; c] -> M.OCheckscript (bh c)
  | _ -> failwith "bad op"

let fuel = nat_of_int 20000

(* server used by the real client, and the model client's own world *)
let impl_srv : M.sstate option ref = ref None
let model_w : M.mworld option ref = ref None
let model_st : M.cstate ref = ref M.c_init

let canned_st : M.cstate ref = ref M.c_init
let canned_buf : M.bytes ref = ref []
let canned_chunks : M.bytes list ref = ref []
let canned_log : M.wevent list ref = ref []

let get r = match !r with Some x -> x | None -> failwith "no server"

let srv_dump (s : M.sstate) =
  Printf.sprintf "store=%s active=%s bad=%d authed=%d tls=%d count=%d"
    (match s.M.s_store with [] -> "-" | l ->
       String.concat "," (List.map (fun (n, c) -> hb n ^ ":" ^ hb c) l))
    (ohb s.M.s_active) (int_of_nat s.M.s_bad) (if s.M.s_authed then 1 else 0)
    (if s.M.s_tls then 1 else 0) (int_of_nat s.M.s_count)

let unit_fn name (arg : M.bytes) : string =
  let lst l = match l with [] -> "-" | _ -> String.concat "," (List.map hb l) in
  match name with
  | "splitlines" -> lst (M.splitlines arg)
  | "split_ws1" -> lst (M.split_ws1 arg)
  | "split_ws" -> lst (M.split_ws arg)
  | "strip_ws" -> hb (M.strip_ws arg)
  | "strip_dq" -> hb (M.strip_dq arg)
  | "quote" -> hb (M.quote arg)
  | "unescape_q" -> hb (M.unescape_q arg)
  | "b64_encode" -> hb (M.b64_encode arg)
  | "b64_decode" -> ohb (M.b64_decode arg)
  | "scan_quoted" -> (match M.scan_quoted arg with None -> "-" | Some (a, b) -> hb a ^ " " ^ hb b)
  | "scan_size" -> (match M.scan_size arg with None -> "-" | Some (n, b) -> string_of_int (int_of_n n) ^ " " ^ hb b)
  | "scan_status" -> (match M.scan_status arg with None -> "-" | Some (c, d) -> hb c ^ " " ^ ohb d)
  | "dec" -> hb (M.dec (n_of_int (int_of_string (string_of_bytes arg))))
  | _ -> failwith "bad fn"

let handle (line : string) : string =
  match String.split_on_char ' ' line with
  | "srv_new" :: pre :: post :: stls :: ver :: login :: pw :: maxsize :: maxscripts :: eol
    :: store :: active :: choices :: faults :: [] ->
      let cfg = { M.cfg_sasl_pre = bh pre; cfg_sasl_post = bh post; cfg_starttls = (stls = "1");
                  cfg_version = (ver = "1"); cfg_login = bh login; cfg_password = bh pw;
                  cfg_maxsize = n_of_int (int_of_string maxsize);
                  cfg_maxscripts = nat_of_int (int_of_string maxscripts);
                  cfg_eol_after_literal = (eol = "1") } in
      let store = List.map (fun kv -> match String.split_on_char ':' kv with
          | [k; v] -> (bh k, bh v) | _ -> failwith "bad store") (split_on ',' store) in
      let choices = List.map (fun c -> n_of_int (int_of_string c)) (split_on ',' choices) in
      let faults = List.map (fun kv -> match String.split_on_char ':' kv with
          | [i; f] -> (nat_of_int (int_of_string i), fault_of f) | _ -> failwith "bad fault")
          (split_on ',' faults) in
      let s = M.mk_server cfg store (obh active) choices faults in
      impl_srv := Some s; model_w := Some (M.mworld0 s); model_st := M.c_init; "ok"
  | ["srv_connect"] ->
      (match M.srv_connect (get impl_srv) with
       | Some (s, g) -> impl_srv := Some s; hb g | None -> "-")
  | ["srv_tls"] ->
      (match M.srv_tls (get impl_srv) with
       | Some (s, g) -> impl_srv := Some s; hb g | None -> "-")
  | ["srv_feed"; d] ->
      let (s, r) = M.srv_react (get impl_srv) (bh d) in impl_srv := Some s; hb r
  | ["srv_dump"] -> srv_dump (get impl_srv)
  | ["model_dump"] -> srv_dump (get model_w).M.w_peer
  | ["model_log"] ->
      (match List.rev (get model_w).M.w_log with [] -> "-" | l -> String.concat " " (List.map event_str l))
  | ["model_unread"] ->
      let w = get model_w in hb (w.M.w_buf @ List.concat w.M.w_chunks)
  | "model_op" :: t ->
      let (o, w) = M.model_step fuel (parse_op t) !model_st (get model_w) in
      model_w := Some w; model_st := outcome_state o; outcome_str o
  | ["canned_new"; auth; version; buf; chunks] ->
      let st0 = M.c_init in
      canned_st := { st0 with M.c_auth = (auth = "1");
                 M.c_caps = (if version = "1" then [(bytes_of_string "VERSION", Some (bytes_of_string "1.0"))] else []) };
      canned_buf := bh buf; canned_chunks := List.map bh (split_on ',' chunks); canned_log := []; "ok"
  | "canned_op" :: t ->
      let (o, w) = M.canned_step fuel (parse_op t) !canned_st !canned_buf !canned_chunks in
      canned_st := outcome_state o; canned_buf := w.M.w_buf; canned_chunks := w.M.w_chunks;
      canned_log := !canned_log @ List.rev w.M.w_log;
      outcome_str o
  | ["canned_unread"] -> hb (!canned_buf @ List.concat !canned_chunks)
  | ["canned_log"] -> (match !canned_log with [] -> "-" | l -> String.concat " " (List.map event_str l))
  | ["rename_abs"; o; n; plan] ->
      (* run on a copy of the model-side server state; nothing is modified *)
      let faults = List.map (fun kv -> match String.split_on_char ':' kv with
          | [i; f] -> (nat_of_int (int_of_string i), fault_of f) | _ -> failwith "bad fault")
          (split_on ',' plan) in
      let (r, s') = M.rename_abs_run (get model_w).M.w_peer (bh o) (bh n) faults in
      (match r with M.RTrue -> "true" | M.RFalse -> "false" | M.RError -> "error") ^ " " ^ srv_dump s'
  | "spec_op" :: ver :: t ->
      (* the functional specification of ms/Spec.v on the state of the server the real client talks to *)
      (match M.spec_op (ver = "1") (parse_op t) (get impl_srv) with
       | None -> "none"
       | Some (v, s') -> value_str v ^ " " ^ srv_dump s')
  | ["spec_caps"] ->
      (* what CAPABILITY returns against the server the real client talks to (theorem C15_capability) *)
      "b:" ^ hb (M.capabilities_bytes (get impl_srv))
  | ["parse_cmd"; d] -> presult_str (M.parse_command (bh d))
  | ["select_mech"; v; m] -> ohb (M.select_mech (bh v) (obh m))
  | ["fn"; name; d] -> unit_fn name (bh d)
  | ["decode_oauth"; d] ->
      (match M.decode_oauth (bh d) with None -> "-" | Some (u, p) -> hb u ^ " " ^ hb p)
  | ["split_nul"; d] -> String.concat "," (List.map hb (M.split_nul (bh d) []))
  | _ -> failwith ("bad request: " ^ line)

let () =
  try
    while true do
      let line = input_line stdin in
      let out = try handle line with
        | Failure m -> "ERR " ^ m
        | Stack_overflow -> "ERR stack overflow"
        | Not_found -> "ERR not found"
        | Invalid_argument m -> "ERR invalid " ^ m in
      print_string out; print_char '\n'; flush stdout
    done
  with End_of_file -> ()
