(* factory_driver.ml — line-oriented driver around the extracted FiltersSet model. *)
module M = Factory_model

let rec pos_of_int i =
  if i = 1 then M.XH else if i land 1 = 0 then M.XO (pos_of_int (i lsr 1)) else M.XI (pos_of_int (i lsr 1))
let n_of_int i = if i = 0 then M.N0 else M.Npos (pos_of_int i)
let rec int_of_pos = function M.XH -> 1 | M.XO p -> 2 * int_of_pos p | M.XI p -> 2 * int_of_pos p + 1
let int_of_n = function M.N0 -> 0 | M.Npos p -> int_of_pos p
let rec nat_of_int i = if i <= 0 then M.O else M.S (nat_of_int (i - 1))
let int_of_nat n = let rec go acc = function M.O -> acc | M.S m -> go (acc + 1) m in go 0 n
let bytes_of_string (s : string) : M.bytes =
  let rec go i acc = if i < 0 then acc else go (i - 1) (n_of_int (Char.code s.[i]) :: acc) in
  go (String.length s - 1) []
let string_of_bytes (b : M.bytes) : string =
  let buf = Buffer.create 64 in
  List.iter (fun n -> Buffer.add_char buf (Char.chr ((int_of_n n) land 255))) b; Buffer.contents buf
let hexdig = "0123456789abcdef"
let hex_of_string s =
  let buf = Buffer.create (1 + 2 * String.length s) in
  Buffer.add_char buf 'x';
  String.iter (fun c -> let k = Char.code c in
                Buffer.add_char buf hexdig.[k lsr 4]; Buffer.add_char buf hexdig.[k land 15]) s;
  Buffer.contents buf
let hv c = match c with
  | '0'..'9' -> Char.code c - 48 | 'a'..'f' -> Char.code c - 87 | 'A'..'F' -> Char.code c - 55 | _ -> failwith "bad hex"
let string_of_hex t =
  if String.length t = 0 || t.[0] <> 'x' then failwith ("bad hex token " ^ t);
  let n = (String.length t - 1) / 2 in
  String.init n (fun i -> Char.chr (hv t.[1 + 2 * i] * 16 + hv t.[2 + 2 * i]))
let hb (b : M.bytes) = hex_of_string (string_of_bytes b)
let bh (t : string) : M.bytes = bytes_of_string (string_of_hex t)
let obh t = if t = "-" then None else Some (bh t)
let ohb = function None -> "-" | Some b -> hb b

let rec content_str = function
  | M.Plain i -> Printf.sprintf "p%d" (int_of_nat i)
  | M.IfFalse l -> "w[" ^ String.concat "," (List.map content_str l) ^ "]"

let ret_str = function
  | M.RNone -> "none" | M.RBool true -> "true" | M.RBool false -> "false"
  | M.RContent c -> "content:" ^ content_str c
  | M.RAlreadyExists -> "exists" | M.RIndexError -> "indexerror"

let state : M.fset ref = ref []
let sstate : M.spec ref = ref []

let dump () =
  match !state with
  | [] -> "-"
  | l -> String.concat " " (List.map (fun f ->
      Printf.sprintf "%s:%d:%s:%s" (hb f.M.f_name) (if f.M.f_enabled then 1 else 0) (content_str f.M.f_content)
        (ohb f.M.f_desc)) l)

let sdump () =
  match !sstate with
  | [] -> "-"
  | l -> String.concat " " (List.map (fun e ->
      Printf.sprintf "%s:%d:p%d:%s" (hb e.M.e_name) (if e.M.e_enabled then 1 else 0) (int_of_nat e.M.e_id) (ohb e.M.e_desc)) l)

let parse_op = function
  | ["add"; n; c] -> M.FAdd (bh n, nat_of_int (int_of_string c))
  | ["update"; a; b; c] -> M.FUpdate (bh a, bh b, nat_of_int (int_of_string c))
  | ["replace"; a; c; nn; d] -> M.FReplace (bh a, nat_of_int (int_of_string c), obh nn, obh d)
  | ["remove"; n] -> M.FRemove (bh n)
  | ["enable"; n] -> M.FEnable (bh n)
  | ["disable"; n] -> M.FDisable (bh n)
  | ["move"; n; d] -> M.FMove (bh n, d = "up")
  | _ -> failwith "bad op"

(* ---- building real trees (factory/Build.v) *)
let bstate : M.bstate ref = ref M.b_empty
let loaded : M.bytes list ref = ref []

let fv_of_string t =
  if String.length t = 0 then failwith "empty value" else
  let body = String.sub t 1 (String.length t - 1) in
  match t.[0] with
  | 's' -> M.FS (bh body)
  | 'i' -> M.FI (bytes_of_string body)
  | 'l' -> M.FL (if body = "" then [] else List.map bh (String.split_on_char '+' body))
  | _ -> failwith "bad value"
let tuple_of_string t = if t = "()" then [] else List.map fv_of_string (String.split_on_char ',' t)
let tuples_of_string t = if t = "-" then [] else List.map tuple_of_string (String.split_on_char ';' t)

let perr_str = function
  | M.EUnknownCommand _ -> "unknown_command" | M.EExtNotLoaded _ -> "ext_not_loaded"
  | M.EBadArgument -> "bad_argument" | M.EBadValue -> "bad_value" | _ -> "other"

let bres_str f = function
  | M.BOk a -> f a | M.BErr e -> "err:" ^ perr_str e | M.BCrash -> "crash"

let lst l = match l with [] -> "-" | _ -> String.concat "," (List.map hb l)

let handle line =
  match String.split_on_char ' ' line with
  | ["reset"] -> state := []; sstate := []; "ok"
  | "op" :: t ->
      let o = parse_op t in
      let (r, s') = M.step !state o in
      let (r2, ss') = M.spec_step !sstate o in
      state := s'; sstate := ss';
      ret_str r ^ " | " ^ dump () ^ " | " ^ ret_str r2 ^ " | " ^ sdump ()
  | ["bnew"] -> bstate := M.b_empty; loaded := []; "ok"
  | ["bloaded"; l] -> loaded := (if l = "-" then [] else List.map bh (String.split_on_char ',' l)); "ok"
  | ["badd"; n; mt; cs; acts] ->
      bres_str (fun (r, st) -> bstate := st; ret_str r)
        (M.b_addfilter M.gen_tables !loaded (bh n) (tuples_of_string cs) (tuples_of_string acts) (bh mt) !bstate)
  | ["bupdate"; o; n; mt; cs; acts] ->
      bres_str (fun (r, st) -> bstate := st; ret_str r)
        (M.b_updatefilter M.gen_tables !loaded (bh o) (bh n) (tuples_of_string cs) (tuples_of_string acts) (bh mt) !bstate)
  | "bop" :: t ->
      let (r, st) = M.b_step (parse_op t) !bstate in bstate := st; ret_str r
  | ["brender"; np; dp] ->
      bres_str hb (M.b_render M.gen_tables !loaded (nat_of_int 64) (bh np) (bh dp) !bstate)
  | ["brequires"] -> lst (!bstate).M.b_reqs
  | ["breadtext"; np; dp; text] ->
      let rv_str = function M.RS s -> "s" ^ hb s | M.RL l -> "l" ^ String.concat "+" (List.map hb l)
                          | M.RI d -> "i" ^ string_of_bytes d in
      let tup t = match t with [] -> "()" | _ -> String.concat "," (List.map rv_str t) in
      let tups = function M.RCrash -> "crash" | M.ROk [] -> "-" | M.ROk l -> String.concat ";" (List.map tup l) in
      (match M.parse M.gen_tables (bh text) with
       | M.Accept ns ->
           let (_, fs) = M.from_parser_result (bh np) (bh dp) ns in
           let fuel = nat_of_int 64 in
           (match fs with [] -> "-" | _ -> String.concat " / " (List.map (fun f ->
              hb f.M.lf_name ^ " = " ^
              (match M.l_getfilter f with
               | None -> "crash"
               | Some flt ->
                   tups (M.std_get_conditions fuel flt) ^ " | " ^ tups (M.std_get_actions fuel flt) ^ " | " ^
                   (match M.get_matchtype fuel flt with None -> "none" | Some m -> hb m))) fs))
       | _ -> "reject")
  | ["bread"; n] ->
      let rv_str = function M.RS s -> "s" ^ hb s | M.RL l -> "l" ^ String.concat "+" (List.map hb l)
                          | M.RI d -> "i" ^ string_of_bytes d in
      let tup t = match t with [] -> "()" | _ -> String.concat "," (List.map rv_str t) in
      let tups = function M.RCrash -> "crash" | M.ROk [] -> "-" | M.ROk l -> String.concat ";" (List.map tup l) in
      (match M.b_getfilter M.gen_tables !loaded (bh n) !bstate with
       | None -> "none"
       | Some (M.BOk flt) ->
           let fuel = nat_of_int 64 in
           tups (M.std_get_conditions fuel flt) ^ " | " ^ tups (M.std_get_actions fuel flt) ^ " | " ^
           (match M.get_matchtype fuel flt with None -> "none" | Some m -> hb m)
       | Some _ -> "crash")
  | ["bload"; np; dp; text] ->
      (match M.parse M.gen_tables (bh text) with
       | M.Accept ns ->
           let (rq, fs) = M.from_parser_result (bh np) (bh dp) ns in
           let fstr = match fs with [] -> "-" | _ -> String.concat " " (List.map (fun f ->
             Printf.sprintf "%s:%s:%d" (hb f.M.lf_name) (hb f.M.lf_desc) (if f.M.lf_enabled then 1 else 0)) fs) in
           lst rq ^ " | " ^ fstr ^ " | " ^
           bres_str hb (M.reload_text M.gen_tables (nat_of_int 64) (bh np) (bh dp) (bh text))
       | _ -> "reject")
  | ["get"; n] -> ret_str (M.op_get (bh n) !state)
  | ["isdisabled"; n] -> ret_str (M.op_is_disabled (bh n) !state)
  | ["fquote"; v] -> hb (M.fquote (bh v))
  | ["quote_if_necessary"; v] -> hb (M.quote_if_necessary (bh v))
  | ["quote_list"; vs] -> hb (M.quote_list (List.map bh (if vs = "-" then [] else String.split_on_char ',' vs)))
  | ["stored_comment"; p; t] -> hb (M.stored_comment (bh p) (bh t))
  | ["recover"; p; c] -> ohb (M.recover (bh p) (bh c))
  | ["to_list"; s] -> lst (M.to_list (bh s))
  | ["scan_string"; s] -> (match M.scan_string (bh s) with None -> "-" | Some n -> string_of_int (int_of_nat n))
  | _ -> failwith ("bad request: " ^ line)

let () =
  try
    while true do
      let line = input_line stdin in
      let out = try handle line with
        | Failure m -> "ERR " ^ m | Stack_overflow -> "ERR stack overflow" | Not_found -> "ERR not found"
        | Invalid_argument m -> "ERR invalid " ^ m in
      print_string out; print_char '\n'; flush stdout
    done
  with End_of_file -> ()
