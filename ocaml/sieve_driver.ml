(* sieve_driver.ml — line-oriented driver around the extracted Sieve parser/printer model.
   Byte strings travel as 'x' + hex; the extracted module is never opened. *)
module M = Sieve_model

let rec pos_of_int i =
  if i = 1 then M.XH
  else if i land 1 = 0 then M.XO (pos_of_int (i lsr 1))
  else M.XI (pos_of_int (i lsr 1))
let n_of_int i = if i = 0 then M.N0 else M.Npos (pos_of_int i)
let rec int_of_pos = function
  | M.XH -> 1 | M.XO p -> 2 * int_of_pos p | M.XI p -> 2 * int_of_pos p + 1
let int_of_n = function M.N0 -> 0 | M.Npos p -> int_of_pos p
let rec nat_of_int i = if i <= 0 then M.O else M.S (nat_of_int (i - 1))
let int_of_nat n = let rec go acc = function M.O -> acc | M.S m -> go (acc + 1) m in go 0 n

let bytes_of_string (s : string) : M.bytes =
  let rec go i acc = if i < 0 then acc else go (i - 1) (n_of_int (Char.code s.[i]) :: acc) in
  go (String.length s - 1) []
let string_of_bytes (b : M.bytes) : string =
  let buf = Buffer.create 64 in
  List.iter (fun n -> Buffer.add_char buf (Char.chr ((int_of_n n) land 255))) b;
  Buffer.contents buf
let hexdig = "0123456789abcdef"
let hex_of_string s =
  let buf = Buffer.create (1 + 2 * String.length s) in
  Buffer.add_char buf 'x';
  String.iter (fun c -> let k = Char.code c in
                Buffer.add_char buf hexdig.[k lsr 4]; Buffer.add_char buf hexdig.[k land 15]) s;
  Buffer.contents buf
let hv c = match c with
  | '0'..'9' -> Char.code c - 48 | 'a'..'f' -> Char.code c - 87 | 'A'..'F' -> Char.code c - 55
  | _ -> failwith "bad hex"
let string_of_hex t =
  if String.length t = 0 || t.[0] <> 'x' then failwith ("bad hex token " ^ t);
  let n = (String.length t - 1) / 2 in
  String.init n (fun i -> Char.chr (hv t.[1 + 2 * i] * 16 + hv t.[2 + 2 * i]))
let hb (b : M.bytes) = hex_of_string (string_of_bytes b)
let bh (t : string) : M.bytes = bytes_of_string (string_of_hex t)
let split_on c s = if s = "-" || s = "" then [] else String.split_on_char c s
let opt f s = if s = "-" then None else Some (f s)

(* ---------------------------------------------------------------- printing *)

let err_str = function
  | M.EUnknownToken -> "UnknownToken -" | M.EUnexpectedToken -> "UnexpectedToken -"
  | M.EExpected -> "Expected -" | M.EUnknownCommand n -> "UnknownCommand " ^ hb n
  | M.EExtNotLoaded e -> "ExtNotLoaded " ^ hb e | M.EBadArgument -> "BadArgument -"
  | M.EBadValue -> "BadValue -" | M.ENotTest n -> "NotTest " ^ hb n
  | M.EFirstCommand n -> "FirstCommand " ^ hb n | M.EUnexpectedAfter -> "UnexpectedAfter -"
  | M.EMustFollow -> "MustFollow -" | M.EBracketNone -> "BracketNone -"
  | M.EBracketMismatch -> "BracketMismatch -" | M.EEndExpected -> "EndExpected -"
  | M.EEndUnfinished -> "EndUnfinished -" | M.EInvalidUtf8 -> "InvalidUtf8 -"
  | M.EMissingParam -> "MissingParam -"

let rec node_str (n : M.node) : string =
  let M.Node (d, args, extra, children, comments) = n in
  let kv l = String.concat "," (List.map (fun (k, v) -> hb k ^ "=" ^ aval_str v) l) in
  Printf.sprintf "(%s a{%s} e{%s} c[%s] h[%s])" (string_of_bytes d.M.d_name) (kv args) (kv extra)
    (String.concat " " (List.map node_str children)) (String.concat "," (List.map hb comments))
and aval_str = function
  | M.VStr s -> "s:" ^ hb s
  | M.VList l -> "l:" ^ String.concat "+" (List.map hb l)
  | M.VTest n -> "t:" ^ node_str n
  | M.VTests l -> "T:[" ^ String.concat " " (List.map node_str l) ^ "]"

(* ---------------------------------------------------------------- definitions at run time (C20) *)

let atype_of = function
  | "tag" -> M.TyTag | "string" -> M.TyString | "stringlist" -> M.TyStringList | "number" -> M.TyNumber
  | "test" -> M.TyTest | "testlist" -> M.TyTestList | s -> M.TyOther (bytes_of_string s)

let tok_of = function
  | "left_bracket" -> M.TLeftBracket | "right_bracket" -> M.TRightBracket | "left_parenthesis" -> M.TLeftParen
  | "right_parenthesis" -> M.TRightParen | "left_cbracket" -> M.TLeftCBracket | "right_cbracket" -> M.TRightCBracket
  | "semicolon" -> M.TSemicolon | "comma" -> M.TComma | "string" -> M.TString | "identifier" -> M.TIdentifier
  | "tag" -> M.TTag | "number" -> M.TNumber | s -> failwith ("bad token kind " ^ s)

(* arg := name~types~required~values~extension~extvalues~extra ; lists use '+' ; '-' = absent
   extra := S<hex type>^values^valid_for | L<type+type>^values^valid_for *)
let parse_extra s =
  match String.split_on_char '^' s with
  | [t; vals; vf] ->
      let et = if t.[0] = 'S' then M.ExStr (bh (String.sub t 1 (String.length t - 1)))
               else M.ExList (List.map atype_of (split_on '+' (String.sub t 1 (String.length t - 1)))) in
      { M.ex_type = et; ex_values = opt (fun v -> List.map bh (split_on '+' v)) vals;
        ex_valid_for = opt (fun v -> List.map bh (split_on '+' v)) vf }
  | _ -> failwith "bad extra"

let parse_arg s =
  match String.split_on_char '~' s with
  | [name; types; req; vals; ext; extvals; extra] ->
      { M.a_name = bh name; a_type = List.map atype_of (split_on '+' types); a_required = (req = "1");
        a_values = opt (fun v -> List.map bh (split_on '+' v)) vals;
        a_extension = opt bh ext;
        a_extension_values = opt (fun v -> List.map (fun kv -> match String.split_on_char '=' kv with
            | [k; x] -> (bh k, bh x) | _ -> failwith "bad extval") (split_on '+' v)) extvals;
        a_extra = opt parse_extra extra }
  | _ -> failwith ("bad arg " ^ s)

(* def := key name type children var nondet mustfollow ext ef args *)
let parse_def (t : string list) =
  match t with
  | [key; name; ty; ch; var; nd; mf; ext; ef; args] ->
      let d = { M.d_name = bh name;
                d_type = (match ty with "control" -> M.CControl | "action" -> M.CAction | _ -> M.CTest);
                d_args = List.map parse_arg (split_on ';' args);
                d_accept_children = (ch = "1"); d_variable_args_nb = (var = "1");
                d_non_deterministic_args = (nd = "1");
                d_must_follow = opt (fun v -> List.map bh (split_on '+' v)) mf;
                d_extension = opt bh ext;
                d_expected_first = opt (fun v -> List.map tok_of (split_on '+' v)) ef;
                d_complete = M.HNone; d_reassign = M.RNotImplemented } in
      (bh key, d)
  | _ -> failwith "bad def"

let extra_defs : (M.bytes * M.cmddef) list ref = ref []
(* add_commands writes into globals(): a later definition of the same key replaces the earlier one *)
let tables () = !extra_defs @ M.gen_tables

let fuel = nat_of_int 100000

let outcome_str text o =
  match o with
  | M.Accept r -> "accept " ^ String.concat " " (List.map node_str r)
  | M.Reject (e, pos, tlen) ->
      Printf.sprintf "reject %s %d %d %d" (err_str e) (int_of_nat (M.lineno text pos))
        (int_of_nat (M.colno text pos)) (int_of_nat tlen)
  | M.Crash pos -> Printf.sprintf "crash %d" (int_of_nat pos)
  | M.OutOfFuel -> "fuel"

let kind_str = function
  | M.TLeftBracket -> "left_bracket" | M.TRightBracket -> "right_bracket" | M.TLeftParen -> "left_parenthesis"
  | M.TRightParen -> "right_parenthesis" | M.TLeftCBracket -> "left_cbracket" | M.TRightCBracket -> "right_cbracket"
  | M.TSemicolon -> "semicolon" | M.TComma -> "comma" | M.THashComment -> "hash_comment"
  | M.TBracketComment -> "bracket_comment" | M.TMultiline -> "multiline" | M.TString -> "string"
  | M.TIdentifier -> "identifier" | M.TTag -> "tag" | M.TNumber -> "number"

let handle (line : string) : string =
  match String.split_on_char ' ' line with
  | ["parse"; d] -> let text = bh d in outcome_str text (M.parse (tables ()) text)
  | ["print"; d] ->
      let text = bh d in
      (match M.parse (tables ()) text with
       | M.Accept r -> "accept " ^ hb (M.tosieve_all fuel r)
       | o -> outcome_str text o)
  | ["lex"; d] ->
      let (toks, err) = M.lex (bh d) in
      String.concat "," (List.map (fun t -> Printf.sprintf "%s:%d:%d" (kind_str t.M.t_kind)
                                      (int_of_nat t.M.t_pos) (List.length t.M.t_val)) toks)
      ^ (match err with None -> " ok" | Some p -> Printf.sprintf " err:%d" (int_of_nat p))
  | "def" :: t -> extra_defs := parse_def t :: !extra_defs; "ok"
  | ["undef"] -> extra_defs := []; "ok"
  | ["utf8"; d] -> if M.utf8_valid (bh d) then "1" else "0"
  | _ -> failwith ("bad request: " ^ line)

let () =
  try
    while true do
      let line = input_line stdin in
      let out = try handle line with
        | Failure m -> "ERR " ^ m
        | Stack_overflow -> "ERR stack overflow"
        | Not_found -> "ERR not found"
        | Invalid_argument m -> "ERR invalid " ^ m in
      print_string out; print_char '\n'; flush stdout
    done
  with End_of_file -> ()
