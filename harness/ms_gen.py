"""Generators for the ManageSieve checks: replies from the RFC 5804 grammar, names, bodies,
segmentations.  Every random choice comes from the rng passed in."""

TEXT_ATOMS = [b"done", b"", b"a", b'say "hi"', b"back\\slash", b"(paren)", b"{3}", b"{3+}", b"OK", b"NO x",
              b"BYE", b"caf\xc3\xa9", b"two words", b'"', b"\\", b'\\"', b"x" * 70, b"ACTIVE",
              b"line1\r\nline2", b"tab\there", b'end"', b"}{", b") (", b"a\nb", b"\r", b"\xe2\x82\xac"]

CODES = [None, None, b"NONEXISTENT", b"QUOTA/MAXSIZE", b"QUOTA/MAXSCRIPTS", b"ACTIVE", b"ALREADYEXISTS",
         b"WARNINGS", b'TAG "x"', b'TAG "a)b"', b'SASL "dGVzdA=="', b"X-EXT/SUB-CODE", b"TRYLATER",
         b'REFERRAL "sieve://host/"', b'TAG "q\\"uote"', b"X_UNDER 12"]

NAME_ATOMS = [b"main", b"a", b"vac\xc3\xa0tion", b'clever"script', b"back\\slash", b"{5}", b"{1+}", b"OK",
              b"NO", b"BYE", b"ACTIVE", b'"quoted"', b"with space", b"x ACTIVE", b'"x" ACTIVE', b"(p)",
              b"tr\xc3\xa8s long name with spaces", b"a,b", b"semi;colon", b"'single'", b"\xe6\x97\xa5\xe6\x9c\xac",
              b'end\\', b'\\"', b"{12}abc"]

BODY_LINES = [b"", b"keep;", b"OK", b'NO "x"', b"BYE", b"{5}", b"{5+}", b'"quoted line"', b"# comment \xc3\xa9",
              b'require ["fileinto"];', b'if header :is "a" "b" { discard; }', b"OK \"Getscript completed.\"",
              b"text:", b".", b"back\\slash", b'q"uote', b"  indented", b"ACTIVE", b"x" * 100,
              # characters that str.splitlines() (but not the protocol) treats as line boundaries stay inside a line
              b"a\xe2\x80\xa8b", b"para\xe2\x80\xa9graph", b"nel\xc2\x85x", b"v\x0bt", b"f\x0cf", b"fs\x1cgs\x1drs\x1e."]


def quotable(v):
    return b"\r" not in v and b"\n" not in v and b"\0" not in v


def quote(v):
    return b'"' + v.replace(b"\\", b"\\\\").replace(b'"', b'\\"') + b'"'


def literal(v):
    return b"{%d}\r\n" % len(v) + v


def render_string(rng, v, enc=None):
    """A string as RFC 5804 lets the server send it. Returns (bytes, encoding)."""
    if enc is None:
        enc = rng.choice(["q", "l"])
    if enc == "q" and quotable(v):
        return quote(v), "q"
    return literal(v), "l"


def gen_text(rng):
    r = rng.random()
    if r < 0.7:
        return rng.choice(TEXT_ATOMS)
    n = rng.randrange(0, 12)
    alphabet = b'ab "\\(){}+\r\n0OKN\xc3\xa9'
    # keep utf-8 valid: pick from atoms of whole characters
    atoms = [b"a", b"b", b" ", b'"', b"\\", b"(", b")", b"{", b"}", b"+", b"\r", b"\n", b"\r\n", b"0", b"O", b"K",
             b"\xc3\xa9", b"3"]
    return b"".join(rng.choice(atoms) for _ in range(n))


def gen_status(rng, status=None, enc=None):
    """Returns (reply bytes, abstract dict)."""
    status = status or rng.choice([b"OK", b"OK", b"NO", b"NO", b"NO", b"BYE"])
    code = rng.choice(CODES)
    has_text = rng.random() < 0.75
    out = status
    if code is not None:
        out += b" (" + code + b")"
    text = None
    e = None
    if has_text:
        text = gen_text(rng)
        sb, e = render_string(rng, text, enc)
        out += b" " + sb
    out += b"\r\n"
    return out, {"status": status.decode(), "code": code, "text": text, "enc": e}


def gen_name(rng):
    if rng.random() < 0.75:
        return rng.choice(NAME_ATOMS)
    atoms = [b"a", b"b", b" ", b'"', b"\\", b"{", b"}", b"1", b"+", b"O", b"K", b"\xc3\xa9", b"A", b"C", b"(", b")"]
    n = rng.randrange(1, 8)
    return b"".join(rng.choice(atoms) for _ in range(n))


def gen_names(rng, kmax=5):
    k = rng.randrange(0, kmax + 1)
    out = []
    for _ in range(k):
        n = gen_name(rng)
        if n not in out:
            out.append(n)
    return out


def gen_body(rng):
    k = rng.choice([0, 1, 1, 2, 3, 5])
    lines = [rng.choice(BODY_LINES) for _ in range(k)]
    eol = rng.choice([b"\r\n", b"\r\n", b"\n", b"\r"])
    body = eol.join(lines)
    if lines and rng.random() < 0.6:
        body += eol
    if rng.random() < 0.1:
        body += eol + eol
    return body


def gen_listing(rng, names=None, active=None):
    if names is None:
        names = gen_names(rng)
        active = rng.choice(names + [None]) if names else None
    out = b""
    encs = []
    for n in names:
        sb, e = render_string(rng, n)
        encs.append(e)
        out += sb + (b" ACTIVE" if n == active else b"") + b"\r\n"
    return out, {"names": names, "active": active, "encs": encs}


def gen_script_reply(rng, body=None, eol_after=True):
    if body is None:
        body = gen_body(rng)
    sb, e = render_string(rng, body)
    return sb + b"\r\n", {"body": body, "enc": e}


# ---------------------------------------------------------------- segmentations

def cuts_to_chunks(data, cuts):
    cuts = sorted(set(c for c in cuts if 0 < c < len(data)))
    out, prev = [], 0
    for c in cuts:
        out.append(data[prev:c])
        prev = c
    out.append(data[prev:])
    return [c for c in out if c]


def fixed_chunks(data, k):
    return [data[i:i + k] for i in range(0, len(data), k)]


def segmentations(rng, data, tier):
    """Yield (label, chunks) for a reply stream."""
    n = len(data)
    for c in range(1, n):
        yield ("cut1:%d" % c, cuts_to_chunks(data, [c]))
    if n <= (40 if tier == "quick" else 60):
        for a in range(1, n):
            for b in range(a + 1, n):
                yield ("cut2:%d,%d" % (a, b), cuts_to_chunks(data, [a, b]))
    for k in (1, 2, 3, 7, 64):
        yield ("fixed:%d" % k, fixed_chunks(data, k))
    for i in range(6 if tier == "quick" else 40):
        k = rng.randrange(2, 8)
        cuts = [rng.randrange(1, max(2, n)) for _ in range(k)]
        yield ("rand:%s" % ",".join(map(str, sorted(set(cuts)))), cuts_to_chunks(data, cuts))
