"""Run the real sievelib parser/printer and canonicalise what it did, in the driver's format."""
import io
import re
import signal

from common import hx


class Hang(Exception):
    pass


def _alarm(*a):
    raise Hang()


def with_timeout(fn, seconds=2.0):
    old = signal.signal(signal.SIGALRM, _alarm)
    signal.setitimer(signal.ITIMER_REAL, seconds)
    try:
        return fn()
    finally:
        signal.setitimer(signal.ITIMER_REAL, 0)
        signal.signal(signal.SIGALRM, old)


def s2b(v):
    return v.encode("utf-8") if isinstance(v, str) else bytes(v)


import sys
sys.setrecursionlimit(20000)


def canon_val(v, commands, sort=False):
    if isinstance(v, commands.Command):
        return "t:" + canon_node(v, commands, sort)
    if isinstance(v, list):
        if v and all(isinstance(x, commands.Command) for x in v):
            return "T:[" + " ".join(canon_node(x, commands, sort) for x in v) + "]"
        return "l:" + "+".join(hx(s2b(x)) for x in v)
    if isinstance(v, (str, bytes)):
        return "s:" + hx(s2b(v))
    return "o:" + hx(repr(v).encode())


def canon_node(c, commands, sort=False):
    items = (lambda d: sorted(d.items())) if sort else (lambda d: d.items())
    kv = lambda d: ",".join("%s=%s" % (hx(s2b(k)), canon_val(v, commands, sort)) for k, v in items(d))
    return "(%s a{%s} e{%s} c[%s] h[%s])" % (
        c.name, kv(c.arguments), kv(c.extra_arguments),
        " ".join(canon_node(x, commands, sort) for x in c.children),
        ",".join(hx(s2b(h)) for h in getattr(c, "hash_comments", [])))


CATS = [
    (re.compile(r"unknown token"), "UnknownToken"),
    (re.compile(r"unexpected token"), "UnexpectedToken"),
    (re.compile(r"found while .* expected (near|at end)"), "Expected"),
    (re.compile(r"unknown command '(.*)'$", re.S), "UnknownCommand"),
    (re.compile(r"extension '(.*)' not loaded$", re.S), "ExtNotLoaded"),
    (re.compile(r"bad argument"), "BadArgument"),
    (re.compile(r"bad value"), "BadValue"),
    (re.compile(r"Expected test command, '(.*)' found instead", re.S), "NotTest"),
    (re.compile(r"(\S+) may not appear as a first command"), "FirstCommand"),
    (re.compile(r"unexpected after a"), "UnexpectedAfter"),
    (re.compile(r"must follow"), "MustFollow"),
    (re.compile(r"unexpected closing bracket .*\(none opened\)"), "BracketNone"),
    (re.compile(r"unexpected closing bracket"), "BracketMismatch"),
    (re.compile(r"end of script reached while .* command is not finished"), "EndUnfinished"),
    (re.compile(r"end of script reached while"), "EndExpected"),
    (re.compile(r"invalid UTF-8"), "InvalidUtf8"),
    (re.compile(r"missing parameter for argument"), "MissingParam"),
]


def categorise(msg):
    m = re.match(r"line (\d+): (.*)$", msg, re.S)
    body = m.group(2) if m else msg
    for rx, name in CATS:
        mm = rx.search(body)
        if mm:
            payload = "-"
            if mm.groups() and name in ("UnknownCommand", "ExtNotLoaded", "NotTest", "FirstCommand"):
                payload = hx(mm.group(1).encode("utf-8"))
            return name, payload
    return "Other", "-"


def run_parser(text, want="tree", parser=None):
    """Returns (canonical line, parser object or None, detail)."""
    from sievelib import commands
    from sievelib.parser import Parser
    p = parser or Parser()

    def go():
        return p.parse(text)
    try:
        ok = with_timeout(go)
    except Hang:
        return "fuel", None, "no return within 2 s"
    except BaseException as e:  # noqa
        return "crash", None, "%s: %s" % (type(e).__name__, e)
    if ok is True:
        if want == "print":
            try:
                out = io.StringIO()
                for c in p.result:
                    c.tosieve(target=out)
                return "accept " + hx(out.getvalue().encode("utf-8")), p, ""
            except BaseException as e:  # noqa
                return "printcrash", p, "%s: %s" % (type(e).__name__, e)
        return "accept " + " ".join(canon_node(c, commands, want == "sorted") for c in p.result), p, ""
    if ok is False:
        try:
            cat, payload = categorise(p.error)
            line, col, tlen = p.error_pos
            return "reject %s %s %d %d %d" % (cat, payload, line, col, tlen), p, p.error
        except BaseException as e:  # noqa
            return "badreject", p, "%s: %s" % (type(e).__name__, e)
    return "badverdict " + repr(ok), p, ""
