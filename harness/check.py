"""check.py <Cxx> [--tier quick|thorough] [--replay file]"""
import argparse
import os
import sys

sys.path.insert(0, os.path.dirname(os.path.abspath(__file__)))
import common  # noqa: E402


def main():
    ap = argparse.ArgumentParser()
    ap.add_argument("pid")
    ap.add_argument("--tier", default=os.environ.get("VERIF_TIER", "quick"))
    ap.add_argument("--replay", default=None)
    args = ap.parse_args()
    seed = int(os.environ.get("VERIF_SEED", "1"))
    pid = args.pid.upper()
    tier = "thorough" if args.tier.startswith("t") else "quick"
    import registry
    spec = registry.CHECKS.get(pid)
    if spec is None:
        print("unknown property %s" % pid)
        return 2
    report = common.Report(pid, tier, seed, spec["level"])
    report.extra["explanation"] = spec["level_text"]
    ok = common.prepare(report, pid, spec.get("coq", []), spec.get("drivers", []))
    if ok:
        try:
            spec["run"](report, tier, seed, args.replay)
        except Exception as e:  # harness failure: never silently pass
            import traceback
            report.broke("harness error: %r" % (e,), traceback.format_exc()[-3000:])
    return report.finish()


if __name__ == "__main__":
    sys.exit(main())
