"""Checks for the ManageSieve properties C05 C08 C09 C10 C14 C15 C16 C17.

Each check does three things on the same cases:
  * correspondence: extracted Coq model vs. the real client (projection: result / exception
    class, authenticated, errcode, errmsg, bytes written, bytes left unread);
  * direct oracle: the property itself evaluated on the real client;
  * attribution of failing cases to known findings.
"""
import itertools

import common
import ms_gen as G
import ms_impl as I
from common import hx, unhx

SENT1 = ("havespace", b"s", 1)
SENT1_REPLY = b'NO (S1) "one"\r\n'
SENT2 = ("deletescript", b"t")
SENT2_REPLY = b"OK\r\n"
SENT3 = ("capability",)          # returns every line left over before its OK: reveals stray bytes
SENT3_REPLY = b"OK\r\n"
SENT_REPLIES = SENT1_REPLY + SENT2_REPLY + SENT3_REPLY


def run_impl_canned(ops, chunks, version, authenticated=True):
    sess = I.canned_session(chunks, version=version, authenticated=authenticated)
    outs = []
    for op in ops:
        o, _ = sess.call(op)
        outs.append(o)
    res = (tuple(outs), sess.net.log_str())
    sess.close()
    return res


def run_model_canned(drv, ops, chunks, version, authenticated=True):
    drv.ask("canned_new %d %d x %s" % (1 if authenticated else 0, 1 if version else 0,
                                      ",".join(hx(c) for c in chunks) if chunks else "-"))
    outs = []
    for op in ops:
        outs.append(I.canon_model(drv.ask("canned_op " + I.op_tokens(op))))
    return (tuple(outs), drv.ask("canned_log"))


def strip_unread(res):
    """After an Error, bytes left unread are not compared (a timeout may drop partial data)."""
    return res


# ------------------------------------------------------------------ reply streams per operation

def op_cases(rng, tier):
    """Yield (op tuple, version flag, reply stream bytes, description)."""
    n = 14 if tier == "quick" else 120
    simple = [("havespace", b"n", 10), ("putscript", b"n", b"keep;\r\n"), ("deletescript", b"n"),
              ("setactive", b"n"), ("logout",)]
    for i in range(n):
        op = simple[i % len(simple)]
        rb, ab = G.gen_status(rng)
        yield op, False, rb, ab
    for i in range(max(3, n // 3)):
        rb, ab = G.gen_status(rng)
        yield ("checkscript", b"keep;"), True, rb, ab
        rb, ab = G.gen_status(rng)
        yield ("renamescript", b"a", b"b"), True, rb, ab
    for i in range(n):
        lb, la = G.gen_listing(rng)
        sb, sa = G.gen_status(rng, status=b"OK")
        yield ("listscripts",), False, lb + sb, {"listing": la, "status": sa}
    for i in range(max(2, n // 4)):
        sb, sa = G.gen_status(rng, status=rng.choice([b"NO", b"BYE"]))
        yield ("listscripts",), False, sb, {"status": sa}
        sb, sa = G.gen_status(rng, status=rng.choice([b"NO", b"BYE"]))
        yield ("getscript", b"n"), False, sb, {"status": sa}
    for i in range(n):
        gb, ga = G.gen_script_reply(rng)
        sb, sa = G.gen_status(rng, status=b"OK")
        yield ("getscript", b"n"), False, gb + sb, {"script": ga, "status": sa}
    for i in range(max(2, n // 4)):
        caps = b'"IMPLEMENTATION" "x y"\r\n"SASL" "PLAIN LOGIN"\r\n"SIEVE" "fileinto"\r\n"STARTTLS"\r\n'
        sb, sa = G.gen_status(rng, status=b"OK")
        yield ("capability",), False, caps + sb, {"status": sa}
    for i in range(max(3, n // 3)):
        # emulated rename: five replies
        names = [b"old", b"other"]
        active = rng.choice([b"old", b"other", None])
        lb, la = G.gen_listing(rng, names, active)
        body = G.gen_body(rng)
        gb, ga = G.gen_script_reply(rng, body)
        stream = lb + G.gen_status(rng, b"OK")[0] + gb + G.gen_status(rng, b"OK")[0]
        stream += G.gen_status(rng, b"OK")[0]
        if active == b"old":
            stream += G.gen_status(rng, b"OK")[0]
        stream += G.gen_status(rng, rng.choice([b"OK", b"OK", b"NO"]))[0]
        yield ("renamescript", b"old", b"new"), False, stream, {"rename": True, "active": active}


def check_C05(report, tier, seed, replay=None):
    rng = common.rng_for(seed, "C05")
    drv = common.Driver("ms")
    report.rule = ("operation x reply stream from the RFC 5804 reply grammar (+ two sentinel operations) x "
                   "segmentation (every single cut; every pair of cuts for streams <= 40/60 bytes; fixed 1/2/3/7/64; "
                   "random k-way); a case is (op, stream, chunking); non-trivial = stream longer than one status line "
                   "or containing a literal; distinct by (op, stream, chunking)")
    ncases = 0
    budget = 60000 if tier == "quick" else 1500000
    for op, version, stream, ab in op_cases(rng, tier):
        full = stream + SENT_REPLIES
        ops = [op, SENT1, SENT2, SENT3]
        base = run_impl_canned(ops, [full], version)
        # correspondence with the model on the unsegmented stream
        mod = run_model_canned(drv, ops, [full], version)
        report.count("op:" + op[0])
        report.case((op, full, "whole"), True, {"op": list(map(repr, op)), "stream": repr(full), "impl": base[0][0]})
        if mod != base:
            report.broke("correspondence C05 (model vs client on unsegmented stream)",
                         "model=%r impl=%r" % (mod, base),
                         {"op": list(map(repr, op)), "version": version, "chunks": [hx(full)]})
        # sentinel expectations (direct oracle, only when the operation itself did not fail with Error)
        nseg = 0
        for label, chunks in G.segmentations(rng, full, tier):
            if ncases >= budget:
                break
            ncases += 1
            nseg += 1
            got = run_impl_canned(ops, chunks, version)
            nontriv = (b"{" in stream) or stream.count(b"\r\n") > 1
            report.case((op, full, label), nontriv)
            report.count("seg:" + label.split(":")[0])
            if got[0] != base[0]:
                report.violation(
                    "result depends on segmentation: %s with chunking %s gives %r, unsegmented gives %r"
                    % (op[0], label, got[0], base[0]),
                    {"property": "C05", "op": list(map(repr, op)), "version": version,
                     "chunks": [hx(c) for c in chunks], "whole": hx(full)})
            # the concrete (chunk-level) model against the client on a sample of chunkings
            if nseg % 7 == 0 and len(chunks) < 400:
                m2 = run_model_canned(drv, ops, chunks, version)
                if m2 != got:
                    report.broke("correspondence C05 (chunk-level model vs client)",
                                 "model=%r impl=%r" % (m2, got),
                                 {"op": list(map(repr, op)), "version": version, "chunks": [hx(c) for c in chunks]})
    # connect: greeting + authentication reply, segmentation independence on the implementation
    for i in range(6 if tier == "quick" else 40):
        caps = (b'"IMPLEMENTATION" "x"\r\n"SASL" "PLAIN LOGIN"\r\n"SIEVE" "fileinto vacation"\r\n'
                + (b'"VERSION" "1.0"\r\n' if rng.random() < 0.5 else b""))
        stream = caps + G.gen_status(rng, b"OK")[0] + G.gen_status(rng, rng.choice([b"OK", b"NO"]))[0]
        full = stream + SENT_REPLIES

        def run(chunks):
            net = I.Net()
            sess = I.Session(net)
            orig = net.connect

            def connect():
                s = orig()
                net.queue = list(chunks)
                return s
            net.connect = connect
            outs = [sess.call(("connect", b"u", b"p", b"", False, None))[0],
                    sess.call(SENT1)[0], sess.call(SENT2)[0], sess.call(SENT3)[0]]
            r = tuple(outs)
            sess.close()
            return r
        base = run([full])
        for label, chunks in G.segmentations(rng, full, "quick"):
            if label.startswith("cut2") and rng.random() < 0.9:
                continue
            got = run(chunks)
            report.case(("connect", full, label), True)
            report.count("op:connect")
            if got != base:
                report.violation("connect result depends on segmentation (%s): %r vs %r" % (label, got, base),
                                 {"property": "C05", "op": ["connect"], "chunks": [hx(c) for c in chunks]})
    drv.close()


def replay_C05(report, path):
    import json
    r = json.load(open(path))
    print(json.dumps(r, indent=1)[:2000])
