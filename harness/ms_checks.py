"""Checks for the ManageSieve properties C05 C08 C09 C10 C14 C15 C16 C17.

Each check does three things on the same cases:
  * correspondence: extracted Coq model vs. the real client (projection: result / exception
    class, authenticated, errcode, errmsg, bytes written, bytes left unread);
  * direct oracle: the property itself evaluated on the real client;
  * attribution of failing cases to known findings.
"""
import itertools

import common
import ms_gen as G
import ms_impl as I
from common import hx, unhx

SENT1 = ("havespace", b"s", 1)
SENT1_REPLY = b'NO (S1) "one"\r\n'
SENT2 = ("deletescript", b"t")
SENT2_REPLY = b"OK\r\n"
SENT3 = ("capability",)          # returns every line left over before its OK: reveals stray bytes
SENT3_REPLY = b"OK\r\n"
SENT_REPLIES = SENT1_REPLY + SENT2_REPLY + SENT3_REPLY


def run_impl_canned(ops, chunks, version, authenticated=True):
    sess = I.canned_session(chunks, version=version, authenticated=authenticated)
    outs = []
    for op in ops:
        o, _ = sess.call(op)
        outs.append(o)
    res = (tuple(outs), sess.net.log_str())
    sess.close()
    return res


def run_model_canned(drv, ops, chunks, version, authenticated=True):
    drv.ask("canned_new %d %d x %s" % (1 if authenticated else 0, 1 if version else 0,
                                      ",".join(hx(c) for c in chunks) if chunks else "-"))
    outs = []
    for op in ops:
        outs.append(I.canon_model(drv.ask("canned_op " + I.op_tokens(op))))
    return (tuple(outs), drv.ask("canned_log"))


def strip_unread(res):
    """After an Error, bytes left unread are not compared (a timeout may drop partial data)."""
    return res


# ------------------------------------------------------------------ reply streams per operation

def op_cases(rng, tier):
    """Yield (op tuple, version flag, reply stream bytes, description)."""
    n = 14 if tier == "quick" else 120
    simple = [("havespace", b"n", 10), ("putscript", b"n", b"keep;\r\n"), ("deletescript", b"n"),
              ("setactive", b"n"), ("logout",)]
    for i in range(n):
        op = simple[i % len(simple)]
        rb, ab = G.gen_status(rng)
        yield op, False, rb, ab
    for i in range(max(3, n // 3)):
        rb, ab = G.gen_status(rng)
        yield ("checkscript", b"keep;"), True, rb, ab
        rb, ab = G.gen_status(rng)
        yield ("renamescript", b"a", b"b"), True, rb, ab
    for i in range(n):
        lb, la = G.gen_listing(rng)
        sb, sa = G.gen_status(rng, status=b"OK")
        yield ("listscripts",), False, lb + sb, {"listing": la, "status": sa}
    for i in range(max(2, n // 4)):
        sb, sa = G.gen_status(rng, status=rng.choice([b"NO", b"BYE"]))
        yield ("listscripts",), False, sb, {"status": sa}
        sb, sa = G.gen_status(rng, status=rng.choice([b"NO", b"BYE"]))
        yield ("getscript", b"n"), False, sb, {"status": sa}
    for i in range(n):
        gb, ga = G.gen_script_reply(rng)
        sb, sa = G.gen_status(rng, status=b"OK")
        yield ("getscript", b"n"), False, gb + sb, {"script": ga, "status": sa}
    for i in range(max(2, n // 4)):
        caps = b'"IMPLEMENTATION" "x y"\r\n"SASL" "PLAIN LOGIN"\r\n"SIEVE" "fileinto"\r\n"STARTTLS"\r\n'
        sb, sa = G.gen_status(rng, status=b"OK")
        yield ("capability",), False, caps + sb, {"status": sa}
    for i in range(max(3, n // 3)):
        # emulated rename: five replies
        names = [b"old", b"other"]
        active = rng.choice([b"old", b"other", None])
        lb, la = G.gen_listing(rng, names, active)
        body = G.gen_body(rng)
        gb, ga = G.gen_script_reply(rng, body)
        stream = lb + G.gen_status(rng, b"OK")[0] + gb + G.gen_status(rng, b"OK")[0]
        stream += G.gen_status(rng, b"OK")[0]
        if active == b"old":
            stream += G.gen_status(rng, b"OK")[0]
        stream += G.gen_status(rng, rng.choice([b"OK", b"OK", b"NO"]))[0]
        yield ("renamescript", b"old", b"new"), False, stream, {"rename": True, "active": active}


def check_C05(report, tier, seed, replay=None):
    rng = common.rng_for(seed, "C05")
    drv = common.Driver("ms")
    report.rule = ("operation x reply stream from the RFC 5804 reply grammar (+ two sentinel operations) x "
                   "segmentation (every single cut; every pair of cuts for streams <= 40/60 bytes; fixed 1/2/3/7/64; "
                   "random k-way); a case is (op, stream, chunking); non-trivial = stream longer than one status line "
                   "or containing a literal; distinct by (op, stream, chunking)")
    ncases = 0
    budget = 60000 if tier == "quick" else 1500000
    for op, version, stream, ab in op_cases(rng, tier):
        full = stream + SENT_REPLIES
        ops = [op, SENT1, SENT2, SENT3]
        base = run_impl_canned(ops, [full], version)
        # correspondence with the model on the unsegmented stream
        mod = run_model_canned(drv, ops, [full], version)
        report.count("op:" + op[0])
        report.case((op, full, "whole"), True, {"op": list(map(repr, op)), "stream": repr(full), "impl": base[0][0]})
        if mod != base:
            report.broke("correspondence C05 (model vs client on unsegmented stream)",
                         "model=%r impl=%r" % (mod, base),
                         {"op": list(map(repr, op)), "version": version, "chunks": [hx(full)]})
        # sentinel expectations (direct oracle, only when the operation itself did not fail with Error)
        nseg = 0
        for label, chunks in G.segmentations(rng, full, tier):
            if ncases >= budget:
                break
            ncases += 1
            nseg += 1
            got = run_impl_canned(ops, chunks, version)
            nontriv = (b"{" in stream) or stream.count(b"\r\n") > 1
            report.case((op, full, label), nontriv)
            report.count("seg:" + label.split(":")[0])
            if got[0] != base[0]:
                report.violation(
                    "result depends on segmentation: %s with chunking %s gives %r, unsegmented gives %r"
                    % (op[0], label, got[0], base[0]),
                    {"property": "C05", "op": list(map(repr, op)), "version": version,
                     "chunks": [hx(c) for c in chunks], "whole": hx(full)})
            # the concrete (chunk-level) model against the client on a sample of chunkings
            if nseg % 7 == 0 and len(chunks) < 400:
                m2 = run_model_canned(drv, ops, chunks, version)
                if m2 != got:
                    report.broke("correspondence C05 (chunk-level model vs client)",
                                 "model=%r impl=%r" % (m2, got),
                                 {"op": list(map(repr, op)), "version": version, "chunks": [hx(c) for c in chunks]})
    # connect: greeting + authentication reply, segmentation independence on the implementation
    for i in range(6 if tier == "quick" else 40):
        caps = (b'"IMPLEMENTATION" "x"\r\n"SASL" "PLAIN LOGIN"\r\n"SIEVE" "fileinto vacation"\r\n'
                + (b'"VERSION" "1.0"\r\n' if rng.random() < 0.5 else b""))
        stream = caps + G.gen_status(rng, b"OK")[0] + G.gen_status(rng, rng.choice([b"OK", b"NO"]))[0]
        full = stream + SENT_REPLIES

        def run(chunks):
            net = I.Net()
            sess = I.Session(net)
            orig = net.connect

            def connect():
                s = orig()
                net.queue = list(chunks)
                return s
            net.connect = connect
            outs = [sess.call(("connect", b"u", b"p", b"", False, None))[0],
                    sess.call(SENT1)[0], sess.call(SENT2)[0], sess.call(SENT3)[0]]
            r = tuple(outs)
            sess.close()
            return r
        base = run([full])
        for label, chunks in G.segmentations(rng, full, "quick"):
            if label.startswith("cut2") and rng.random() < 0.9:
                continue
            got = run(chunks)
            report.case(("connect", full, label), True)
            report.count("op:connect")
            if got != base:
                report.violation("connect result depends on segmentation (%s): %r vs %r" % (label, got, base),
                                 {"property": "C05", "op": ["connect"], "chunks": [hx(c) for c in chunks]})
    drv.close()


def replay_C05(report, path):
    import json
    r = json.load(open(path))
    print(json.dumps(r, indent=1)[:2000])


# =====================================================================================
# reactive cases: real client and model client each against (a copy of) the reference server
# =====================================================================================

class Reactive:
    def __init__(self, drv, rng, sasl_pre=b"PLAIN", sasl_post=None, starttls=False, version=False,
                 login=b"user", password=b"secret", maxsize=100000, maxscripts=50, eol=True,
                 store=(), active=None, choices=None, faults=(), segment=None, tls_fails=False,
                 refuse_connect=False):
        self.drv = drv
        if choices is None:
            choices = [rng.randrange(0, 16) for _ in range(60)]
        self.cfg = dict(sasl_pre=sasl_pre, sasl_post=sasl_post if sasl_post is not None else sasl_pre,
                        starttls=starttls, version=version, login=login, password=password,
                        maxsize=maxsize, maxscripts=maxscripts, eol=eol, store=list(store), active=active,
                        choices=list(choices), faults=list(faults), tls_fails=tls_fails)
        c = self.cfg
        drv.ask("srv_new %s %s %d %d %s %s %d %d %d %s %s %s %s" % (
            hx(c["sasl_pre"]), hx(c["sasl_post"]), c["starttls"], c["version"], hx(login), hx(password),
            maxsize, maxscripts, 1 if eol else 0,
            ",".join("%s:%s" % (hx(k), hx(v)) for k, v in store) if store else "-",
            hx(active), ",".join(map(str, choices)) if choices else "-",
            ",".join("%d:%s" % f for f in faults) if faults else "-"))
        self.net = I.Net(driver=drv, segment=segment, tls_fails=tls_fails, refuse_connect=refuse_connect)
        self.sess = I.Session(self.net)

    def both(self, op):
        """Run op on the implementation and on the model; return (impl, model, detail)."""
        impl, detail = self.sess.call(op)
        if self.cfg["tls_fails"] and op[0] == "connect":
            # the model's TLS oracle is the server's srv_tls; a failing handshake is only run on the implementation
            return impl, None, detail
        model = I.canon_model(self.drv.ask("model_op " + I.op_tokens(op)))
        return impl, model, detail

    def dump(self, which="srv"):
        line = self.drv.ask(which + "_dump")
        d = dict(kv.split("=", 1) for kv in line.split(" "))
        store = []
        if d["store"] != "-":
            for kv in d["store"].split(","):
                k, v = kv.split(":")
                store.append((unhx(k), unhx(v)))
        return {"store": store, "active": unhx(d["active"]), "bad": int(d["bad"]), "authed": d["authed"] == "1",
                "tls": d["tls"] == "1", "count": int(d["count"])}

    def describe(self):
        c = dict(self.cfg)
        for k in ("sasl_pre", "sasl_post", "login", "password", "active"):
            c[k] = repr(c[k])
        c["store"] = [(repr(k), repr(v)) for k, v in c["store"]]
        return c

    def close(self):
        self.sess.close()


def norm_lines(b):
    """Script comparison of C14/C17: line by line, ignoring line-ending style and trailing blank lines."""
    lines = b.splitlines()
    while lines and lines[-1] == b"":
        lines.pop()
    return lines


def random_segmenter(rng):
    mode = rng.choice(["whole", "whole", "fixed1", "fixed3", "fixed7", "rand"])
    if mode == "whole":
        return None
    if mode.startswith("fixed"):
        k = int(mode[5:])
        return lambda data, n: G.fixed_chunks(data, k)
    seed = rng.randrange(1 << 30)

    def seg(data, n):
        import random as _r
        r = _r.Random(seed * 1000003 + n)
        cuts = [r.randrange(1, max(2, len(data))) for _ in range(r.randrange(0, 6))]
        return G.cuts_to_chunks(data, cuts)
    return seg


# ------------------------------------------------------------------ C08

VALUE_ATOMS = ["a", "", 'q"uote', "back\\slash", "\r\nLOGOUT", "x\ny", "nul\0in", "{5}", "{5+}", "{5+}\r\nabcde",
               "café", "日本", "sp ace", '"', "\\", '\\"', "a\rb", "}{", "\U0001f600", "x" * 300,
               '" "b', "OK", "(x)", "tab\t", "\x7f", "a" * 1030]


def gen_value(rng):
    if rng.random() < 0.7:
        return rng.choice(VALUE_ATOMS)
    atoms = ["a", '"', "\\", "\r", "\n", "\0", "{", "}", "+", "1", " ", "é", "\r\n"]
    return "".join(rng.choice(atoms) for _ in range(rng.randrange(0, 9)))


def check_C08(report, tier, seed, replay=None):
    rng = common.rng_for(seed, "C08")
    drv = common.Driver("ms")
    report.rule = ("operation x argument values (names/contents over unicode text with quotes, backslashes, CR, LF, NUL, "
                   "braces, {n}/{n+} look-alikes, multi-byte, empty; sizes up to 2^61): bytes written by the real client "
                   "are parsed by the extracted strict RFC 5804 parser and compared with the intended verb/arguments; "
                   "non-trivial = some argument contains a byte outside [A-Za-z0-9 ]")
    n = 1500 if tier == "quick" else 40000
    kinds = ["havespace", "getscript", "putscript", "deletescript", "setactive", "renamescript", "checkscript",
             "listscripts", "capability", "logout"]
    for i in range(n):
        kind = kinds[i % len(kinds)]
        v1, v2 = gen_value(rng), gen_value(rng)
        size = rng.choice([0, 1, 7, 1000, 2 ** 31, 2 ** 61, rng.randrange(0, 10 ** 9)])
        if kind == "havespace":
            op, want = ("havespace", v1.encode(), size), ("HAVESPACE", ["s:" + hx(v1.encode()), "n:%d" % size])
        elif kind in ("getscript", "deletescript", "setactive"):
            op, want = (kind, v1.encode()), (kind.upper(), ["s:" + hx(v1.encode())])
        elif kind == "putscript":
            op, want = (kind, v1.encode(), v2.encode()), ("PUTSCRIPT", ["s:" + hx(v1.encode()), "s:" + hx(v2.encode())])
        elif kind == "renamescript":
            op, want = (kind, v1.encode(), v2.encode()), ("RENAMESCRIPT", ["s:" + hx(v1.encode()), "s:" + hx(v2.encode())])
        elif kind == "checkscript":
            op, want = (kind, v2.encode()), ("CHECKSCRIPT", ["s:" + hx(v2.encode())])
        else:
            op, want = (kind,), (kind.upper(), [])
        version = kind in ("renamescript", "checkscript")
        sess = I.canned_session([b"OK\r\n"], version=version)
        out, detail = sess.call(op)
        sent = b"".join(e[3] for e in sess.net.log if e[0] == "S")
        nsends = sum(1 for e in sess.net.log if e[0] == "S")
        sess.close()
        nontriv = any(not (chr(c).isalnum() or c == 32) for a in op[1:] if isinstance(a, bytes) for c in a)
        report.case((op,), nontriv, {"op": [repr(x) for x in op], "sent": repr(sent)[:200]})
        report.count("op:" + kind)
        # correspondence: bytes written
        mod = run_model_canned(drv, [op], [b"OK\r\n"], version)
        msent = b"".join(unhx(t.split(":", 2)[2]) for t in mod[1].split(" ") if t.startswith("S")) if mod[1] != "-" else b""
        if msent != sent or mod[0][0] != out:
            report.broke("correspondence C08 (bytes written by model vs client)",
                         "op=%r model=%r/%r impl=%r/%r" % (op, mod[0][0], msent, out, sent), {"op": [repr(x) for x in op]})
        # direct oracle
        if out.startswith("F:Error") and not sent:
            report.count("refused-before-writing")
            continue
        parsed = drv.ask("parse_cmd " + hx(sent))
        expect = "cmd %s %s rest=x" % (hx(want[0].encode()), ",".join(want[1]) if want[1] else "-")
        if parsed != expect:
            report.violation("bytes on the wire are not exactly the intended command: %r sent %r (strict parse: %s, expected %s)"
                             % (op, sent, parsed, expect),
                             {"property": "C08", "op": [repr(x) for x in op], "sent": hx(sent)})
    # a write that fails (timeout, reset, interrupted) must not leak into the next call: the command that follows on the
    # same connection, and the AUTHENTICATE of a new connect(), are still exactly one command each
    import socket as _socket
    faults = [_socket.timeout("timed out"), ConnectionResetError("reset"), BrokenPipeError("pipe"), InterruptedError("eintr")]
    first_ops = [("deletescript", b"precious"), ("putscript", b"n", b"keep;\r\n"), ("setactive", b"x\ny"), ("havespace", b"n", 5),
                 ("listscripts",), ("getscript", b'a"b')]
    for i in range(48 if tier == "quick" else 480):
        op1 = first_ops[i % len(first_ops)]
        v = gen_value(rng).encode()
        op2, want2 = (("getscript", v), ("GETSCRIPT", ["s:" + hx(v)])) if i % 2 else (("deletescript", v), ("DELETESCRIPT", ["s:" + hx(v)]))
        sess = I.canned_session([b"OK\r\n", b"OK\r\n"], version=False)
        sess.net.send_fault = faults[i % len(faults)]
        out1, _ = sess.call(op1)
        sess.net.log = []
        reconnect = (i % 3 == 0)
        if reconnect:
            sess.net.queue = []
            pre = I.GREETING + b"OK\r\n" + b"OK\r\n"
            orig = sess.net.connect

            def connect(orig=orig, net=sess.net, pre=pre):
                sock = orig()
                net.queue = [pre]
                return sock
            sess.net.connect = connect
            out2, _ = sess.call(("connect", b"u", b"p", b"", False, None))
            sess.net.connect = orig
        else:
            sess.net.queue = [b"OK\r\n"]
            out2, _ = sess.call(op2)
        sent = b"".join(e[3] for e in sess.net.log if e[0] == "S")
        sess.close()
        report.case(("write-fault", op1, i), True, {"op": repr(op1), "then": "connect" if reconnect else repr(op2), "sent": repr(sent)[:160]})
        report.count("op:after-write-fault")
        if not sent:
            continue                 # the client refused to go on: nothing smuggled
        parsed = drv.ask("parse_cmd " + hx(sent))
        if reconnect:
            good = parsed.startswith("cmd " + hx(b"AUTHENTICATE") + " ") and parsed.endswith("rest=x")
            expect = "one AUTHENTICATE command"
        else:
            expect = "cmd %s %s rest=x" % (hx(want2[0].encode()), ",".join(want2[1]))
            good = parsed == expect
        if not good:
            report.violation("after a failed write of %r the next call (%s) put %r on the wire (strict parse: %s, expected %s)"
                             % (op1, "connect" if reconnect else repr(op2), sent, parsed, expect),
                             {"property": "C08", "op": [repr(x) for x in op1], "sent": hx(sent), "history": "write fault, then next call"})
    # a value that cannot be encoded (a lone surrogate in a name): the call fails, and whatever it did must not leak into
    # the next call -- everything written on the connection by the two calls together is exactly the second command
    bad_values = [b"report\xff", b"\xff", b"a\xc3", b"ok \xed\xa0\x80 x", b"\x80abc"]
    bad_ops = [lambda v: ("setactive", v), lambda v: ("deletescript", v), lambda v: ("getscript", v), lambda v: ("havespace", v, 10),
               lambda v: ("putscript", v, b"keep;\r\n"), lambda v: ("renamescript", v, b"new"), lambda v: ("renamescript", b"old", v),
               lambda v: ("putscript", b"name", v), lambda v: ("checkscript", v)]
    for i in range(45 if tier == "quick" else 450):
        bv = bad_values[i % len(bad_values)]
        op1 = bad_ops[i % len(bad_ops)](bv)
        v = gen_value(rng).encode()
        op2, want2 = (("getscript", v), ("GETSCRIPT", ["s:" + hx(v)])) if i % 2 else (("deletescript", v), ("DELETESCRIPT", ["s:" + hx(v)]))
        sess = I.canned_session([b"OK\r\n", b"OK\r\n"], version=True)
        out1, _ = sess.call(op1)
        out2, _ = sess.call(op2)
        sent = b"".join(e[3] for e in sess.net.log if e[0] == "S")
        sess.close()
        report.case(("unencodable", op1, i), True, {"op": repr(op1), "then": repr(op2), "sent": repr(sent)[:160]})
        report.count("op:after-unencodable-value")
        if not out1.startswith("F:"):
            report.count("unencodable-value-accepted")
            continue                 # the client found a way to send it: the strict-parse oracle of the first section applies elsewhere
        parsed = drv.ask("parse_cmd " + hx(sent))
        expect = "cmd %s %s rest=x" % (hx(want2[0].encode()), ",".join(want2[1]))
        if parsed != expect:
            report.violation("after a call that failed on a value it could not encode (%r) the connection carries %r: not exactly the next command %r (strict parse: %s)"
                             % (op1, sent, op2, parsed),
                             {"property": "C08", "op": [repr(x) for x in op1], "sent": hx(sent), "history": "unencodable value, then next call"})
    drv.close()


# ------------------------------------------------------------------ C09

def expected_simple(ab):
    """Expected projection for a one-reply operation given the abstract status reply."""
    st = ab["status"]
    if st == "OK":
        return "ok", None, None
    if st == "BYE":
        return "error", None, None
    return "no", ab["code"] or b"", ab["text"] if ab["text"] is not None else b""


def check_C09(report, tier, seed, replay=None):
    rng = common.rng_for(seed, "C09")
    drv = common.Driver("ms")
    report.rule = ("operation x final status reply generated from the RFC 5804 response grammar (OK/NO/BYE, with/without "
                   "response code incl. slashes and quoted parameters, with/without text, quoted or literal), also at each "
                   "step of the emulated rename and of connect; non-trivial = reply has a code or a text")
    n = 1200 if tier == "quick" else 30000
    simple = [("havespace", b"n", 10), ("putscript", b"n", b"keep;\r\n"), ("deletescript", b"n"), ("setactive", b"n"),
              ("checkscript", b"keep;"), ("renamescript", b"a", b"b"), ("listscripts",), ("getscript", b"n")]
    for i in range(n):
        op = simple[i % len(simple)]
        rb, ab = G.gen_status(rng)
        pre = b""
        if ab["status"] == "OK" and op[0] == "listscripts":
            pre = b'"a"\r\n"b" ACTIVE\r\n'
        if ab["status"] == "OK" and op[0] == "getscript":
            pre = b"{6}\r\nkeep;\n\r\n"
        version = op[0] in ("checkscript", "renamescript")
        stream = pre + rb + SENT_REPLIES
        ops = [op, SENT1, SENT2, SENT3]
        # the reply in one piece, and cut between the CR and the LF that end its status line / its last line (the reader
        # must not depend on where recv() cuts the stream: C05; here only the cuts a line reader is most likely to trip on)
        cuts = [None, len(pre) + rb.find(b"\r\n") + 1]
        if len(pre) + len(rb) - 1 not in cuts:
            cuts.append(len(pre) + len(rb) - 1)
        for cut in cuts:
            chunks = [stream] if cut is None else [stream[:cut], stream[cut:]]
            report.count("delivery:" + ("whole" if cut is None else "cut-cr-lf"))
            got = run_impl_canned(ops, chunks, version)
            mod = run_model_canned(drv, ops, chunks, version)
            nontriv = ab["code"] is not None or ab["text"] is not None
            report.case((op, rb, cut), nontriv, {"op": op[0], "reply": repr(rb), "impl": got[0][0]})
            report.count("status:" + ab["status"])
            report.count("shape:%s%s" % ("code" if ab["code"] else "nocode", ("+" + ab["enc"]) if ab["text"] is not None else ""))
            if mod != got:
                report.broke("correspondence C09 (model vs client on status replies)",
                             "op=%r reply=%r model=%r impl=%r" % (op, rb, mod[0], got[0]), {"op": [repr(x) for x in op], "stream": hx(stream)})
            kind, code, text = expected_simple(ab)
            out = got[0][0]
            head, rest = out.split(" ", 1)
            fields = dict(kv.split("=") for kv in rest.split(" "))
            ok = True
            if kind == "ok":
                if op[0] == "listscripts":
                    ok = head == "D:l:%s:%s" % (hx(b"b"), hx(b"a"))
                elif op[0] == "getscript":
                    ok = head == "D:b:" + hx(b"keep;")
                else:
                    ok = head == "D:true"
            elif kind == "error":
                ok = head == "F:Error"
            else:
                want_head = "D:none" if op[0] in ("listscripts", "getscript") else "D:false"
                ok = head == want_head and fields["errcode"] in (hx(code), "-" if code == b"" else hx(code)) and fields["errmsg"] == hx(text)
            # the sentinels must see their own replies (the status reply was consumed exactly) unless BYE ended the session
            if kind != "error":
                ok = ok and got[0][1].startswith("D:false") and ("errcode=" + hx(b"S1")) in got[0][1] \
                    and got[0][2].startswith("D:true") and got[0][3].startswith("D:b:x ")
            if not ok:
                report.violation("result does not mirror the status reply%s: %s on %r gives %r" % ("" if cut is None else " (reply delivered in two segments, cut at byte %d, between CR and LF)" % cut, op[0], rb, got[0]),
                                 {"property": "C09", "op": [repr(x) for x in op], "stream": hx(stream), "version": version, "cut": cut})
    # NO / BYE at each step of the emulated rename
    for i in range(90 if tier == "quick" else 900):
        step = rng.randrange(0, 5)
        status = rng.choice([b"NO", b"BYE"])
        active = rng.choice([b"old", None])
        # the script being renamed: ordinary, empty (as a literal and as a quoted string), blank
        body_reply = [b"{5}\r\nkeep;\r\n", b"{0}\r\n\r\n", b'""\r\n', b"{2}\r\n\r\n\r\n", b'"keep;"\r\n'][i % 5]
        replies = [b'"old"' + (b" ACTIVE" if active == b"old" else b"") + b'\r\n"other"\r\n' + G.gen_status(rng, b"OK")[0],
                   body_reply + G.gen_status(rng, b"OK")[0],
                   G.gen_status(rng, b"OK")[0]]
        if active == b"old":
            replies.append(G.gen_status(rng, b"OK")[0])
        replies.append(G.gen_status(rng, b"OK")[0])
        step = step % len(replies)
        if i % 3 == 2:
            # every step answered OK: the operation succeeds, whatever the script holds
            stream = b"".join(replies) + SENT_REPLIES
            ops = [("renamescript", b"old", b"new"), SENT1, SENT2, SENT3]
            got = run_impl_canned(ops, [stream], False)
            mod = run_model_canned(drv, ops, [stream], False)
            report.case(("rename-all-ok", body_reply, active, stream), True)
            report.count("rename-step:all-ok")
            if mod != got:
                report.broke("correspondence C09 (emulated rename, all steps OK)", "model=%r impl=%r" % (mod[0], got[0]), {"stream": hx(stream)})
            if not (got[0][0].startswith("D:true") and got[0][1].startswith("D:false") and got[0][3].startswith("D:b:x ")):
                report.violation("emulated rename with every step answered OK (script reply %r) gives %r" % (body_reply, got[0]),
                                 {"property": "C09", "stream": hx(stream), "op": "renamescript old new (no VERSION)"})
            continue
        fb, fab = G.gen_status(rng, status)
        stream = b"".join(replies[:step]) + fb
        ops = [("renamescript", b"old", b"new")]
        if status == b"NO":
            stream += SENT_REPLIES
            ops += [SENT1, SENT2, SENT3]
        got = run_impl_canned(ops, [stream], False)
        mod = run_model_canned(drv, ops, [stream], False)
        report.case(("rename-step", step, fb, active), True)
        report.count("rename-step:%d:%s" % (step, status.decode()))
        if mod != got:
            report.broke("correspondence C09 (emulated rename with failing step)", "model=%r impl=%r" % (mod[0], got[0]),
                         {"stream": hx(stream)})
        head = got[0][0].split(" ")[0]
        want = "F:Error" if status == b"BYE" else "D:false"
        good = head == want
        if status == b"NO":
            kind, code, text = expected_simple(fab)
            f = dict(kv.split("=") for kv in got[0][0].split(" ", 1)[1].split(" "))
            good = good and f["errcode"] == hx(code) and f["errmsg"] == hx(text) and got[0][3].startswith("D:b:x ")
        if not good:
            report.violation("emulated rename does not mirror %s at step %d: %r" % (status.decode(), step, got[0]),
                             {"property": "C09", "stream": hx(stream), "op": "renamescript old new (no VERSION)"})
    drv.close()


# ------------------------------------------------------------------ C14

def rename_oracle(before, after, old, new, result_head):
    """The statement of C14 on (server state before, after, call result). Returns a list of complaints."""
    bad = []
    b = dict(before["store"])
    a = dict(after["store"])
    for name, content in b.items():
        if name == old:
            continue
        if name not in a:
            bad.append("script %r lost" % name)
        elif a[name] != content:
            bad.append("script %r modified (existing target overwritten)" % name if name == new else "script %r modified" % name)
    if old in b:
        keep = [n for n in (old, new) if n in a and norm_lines(a[n]) == norm_lines(b[old])]
        if new in b:
            keep = [n for n in keep if n == old]
        if not keep:
            bad.append("content of %r no longer present under old or new name" % old)
    for name in a:
        if name not in b and name != new:
            bad.append("unexpected new script %r" % name)
    if result_head == "D:true":
        if old in a and old != new:
            bad.append("returned True but old name still exists")
        if new not in a or old not in b or norm_lines(a[new]) != norm_lines(b[old]):
            bad.append("returned True but new name does not hold the old content")
        if (before["active"] == old) != (after["active"] == new):
            bad.append("returned True but active status not carried over")
    elif result_head not in ("D:false", "F:Error"):
        bad.append("failure surfaced as %s" % result_head)
    if before["active"] is not None and before["active"] != old and after["active"] != before["active"]:
        bad.append("active script changed from %r to %r" % (before["active"], after["active"]))
    return bad


def check_C14(report, tier, seed, replay=None):
    rng = common.rng_for(seed, "C14")
    drv = common.Driver("ms")
    report.rule = ("emulated rename (server without VERSION): initial state {old absent, present, active} x {new absent, "
                   "present, active} x other scripts x fault {none, NO, BYE, silence} at each of the five commands x bodies "
                   "(LF/CRLF/CR, no final newline, protocol look-alikes), enumerated exhaustively; reference server = extracted "
                   "Coq server; non-trivial = old exists")
    bodies = [b"keep;\r\n", b"a\nb", b"OK\r\n{5}\r\nNO \"x\"\r\n", b"", b'if true { discard; }\r\n\r\n', b"x\ry",
              # characters str.splitlines() treats as line boundaries but a Sieve script may contain
              "# a\x0bb\x0cc\r\nkeep;".encode(), "# \u2028x\u2029y\u0085z\r\n".encode("utf-8"), b"# \x1c\x1d\x1e\nstop;\n"]
    if tier != "quick":
        bodies += [G.gen_body(rng) for _ in range(6)]
    olds = ["absent", "present", "active"]
    news = ["absent", "present", "active"]
    faults = [None] + [(step, kind) for step in range(5) for kind in ("no", "bye", "silent")]
    for ostate, nstate, fault, body in itertools.product(olds, news, faults, bodies):
        if ostate == "active" and nstate == "active":
            continue
        for same in ([False, True] if (ostate == nstate and ostate == "present" and fault is None) else [False]):
            store = [(b"other", b"discard;\r\n")]
            active = None
            old, new = b"old", (b"old" if same else b"new")
            if ostate != "absent":
                store.append((old, body))
            if nstate != "absent" and not same:
                store.insert(0, (new, b"# target\r\nstop;\r\n"))
            if ostate == "active":
                active = old
            if nstate == "active":
                active = new
            fl = [(1 + fault[0], fault[1])] if fault else []
            rc = Reactive(drv, rng, store=store, active=active, faults=fl, segment=random_segmenter(rng))
            ci, cm, _ = rc.both(("connect", b"user", b"secret", b"", False, None))
            before = rc.dump()
            # the abstract rename (theorems of props/C14.v) on the same server state and fault plan
            absline = drv.ask("rename_abs %s %s %s" % (hx(old), hx(new), ("%d:%s" % fault) if fault else "-"))
            ri, rm, detail = rc.both(("renamescript", old, new))
            after = rc.dump()
            mafter = rc.dump("model")
            rc.close()
            report.case((ostate, nstate, fault, body, same), ostate != "absent",
                        {"old": ostate, "new": nstate, "fault": fault, "body": repr(body), "result": ri})
            report.count("fault:%s" % (fault[1] if fault else "none"))
            report.count("result:" + ri.split(" ")[0])
            desc = {"property": "C14", "server": rc.describe(), "op": "renamescript %r %r" % (old, new)}
            if ci != cm or ri != rm or after["store"] != mafter["store"] or after["active"] != mafter["active"]:
                report.broke("correspondence C14 (model client vs real client against the reference server)",
                             "impl=%r model=%r impl-store=%r model-store=%r" % (ri, rm, after, mafter), desc)
            ares, adump = absline.split(" ", 1)
            ad = dict(kv.split("=", 1) for kv in adump.split(" "))
            mres = {"D:true": "true", "D:false": "false", "F:Error": "error"}.get(rm.split(" ")[0], rm.split(" ")[0])
            mline = drv.ask("model_dump")
            md = dict(kv.split("=", 1) for kv in mline.split(" "))
            if ares != mres or ad["store"] != md["store"] or ad["active"] != md["active"]:
                report.broke("refinement C14 (abstract rename_abs vs byte-level model client/server)",
                             "abs=%s %s model=%s %s" % (ares, adump, mres, mline), desc)
            complaints = rename_oracle(before, after, old, new, ri.split(" ")[0])
            if after["bad"]:
                complaints.append("server saw %d malformed/illegal command(s)" % after["bad"])
            if complaints:
                report.violation("emulated rename: %s (old %s, new %s, fault %s, body %r, result %s)"
                                 % ("; ".join(complaints), ostate, nstate, fault, body, ri), desc)
    drv.close()


# ------------------------------------------------------------------ C17

def check_C17(report, tier, seed, replay=None):
    rng = common.rng_for(seed, "C17")
    drv = common.Driver("ms")
    report.rule = ("server stores from name/body generators biased to protocol look-alikes (OK/NO/BYE, {n}, ACTIVE, quotes), "
                   "CR/LF variations, multi-byte text; each value served by the reference server quoted or literal as "
                   "chosen by the seed, with and without the CRLF after a script literal, under random segmentation; "
                   "getscript compared line by line, listscripts exactly; non-trivial = name/body not purely alphanumeric")
    n = 250 if tier == "quick" else 6000
    for i in range(n):
        names = G.gen_names(rng, 5)
        names = [x for x in names if x and b"\r" not in x and b"\n" not in x and b"\0" not in x]
        store = [(nm, G.gen_body(rng)) for nm in names]
        active = rng.choice(names + [None]) if names else None
        rc = Reactive(drv, rng, store=store, active=active, eol=rng.random() < 0.85, segment=random_segmenter(rng))
        rc.both(("connect", b"user", b"secret", b"", False, None))
        li, lm, _ = rc.both(("listscripts",))
        desc = {"property": "C17", "server": rc.describe()}
        want = "D:l:%s:%s" % (hx(active), ",".join(hx(x) for x in names if x != active) if [x for x in names if x != active] else "-")
        nontriv = any(not x.isalnum() for x in names)
        report.case(("list", tuple(names), active, tuple(rc.cfg["choices"][:8])), nontriv,
                    {"names": [repr(x) for x in names], "active": repr(active), "listscripts": li})
        if li != lm:
            report.broke("correspondence C17 (listscripts: model vs client)", "impl=%r model=%r" % (li, lm), desc)
        if li.split(" ")[0] != want:
            report.violation("listscripts returned %s, server holds %s" % (li.split(" ")[0], want), dict(desc, op="listscripts"))
        for nm, body in store:
            gi, gm, _ = rc.both(("getscript", nm))
            report.case(("get", nm, body, rc.cfg["eol"]), True)
            report.count("body-lines:%d" % min(len(norm_lines(body)), 6))
            if gi != gm:
                report.broke("correspondence C17 (getscript: model vs client)", "impl=%r model=%r body=%r" % (gi, gm, body), desc)
            head = gi.split(" ")[0]
            got = unhx(head[4:]) if head.startswith("D:b:") else None
            if got is None or norm_lines(got) != norm_lines(body):
                report.violation("getscript(%r) returned %r, server holds %r" % (nm, got if got is not None else head, body),
                                 dict(desc, op="getscript %r" % nm))
        d = rc.dump()
        if d["bad"]:
            report.violation("server saw malformed/illegal commands", desc)
        rc.close()
    drv.close()


# ------------------------------------------------------------------ C15

NAME_POOL = [b"a", b"b", b'q"x', b"{3}", b"OK", b"caf\xc3\xa9 x"]


def abstract_answer(op, st):
    """What a conforming server in state st (dump) answers, as the client-visible result head."""
    store = dict(st["store"])
    names = [k for k, _ in st["store"]]
    if op[0] == "listscripts":
        others = [x for x in names if x != st["active"]]
        return "D:l:%s:%s" % (hx(st["active"]), ",".join(hx(x) for x in others) if others else "-")
    if op[0] == "getscript":
        return ("script", store[op[1]]) if op[1] in store else "D:none"
    return None


def check_C15(report, tier, seed, replay=None):
    rng = common.rng_for(seed, "C15")
    drv = common.Driver("ms")
    report.rule = ("sessions of 1-30 operations over a small name pool against the extracted reference server, which "
                   "chooses reply encodings (quoted/literal), optional texts, NO outcomes permitted by its state (quota, "
                   "nonexistent, active, already exists) from the seed, under random recv segmentation; after every step: "
                   "real client vs model client vs the server's abstract state; non-trivial = session longer than 3 steps")
    n = 120 if tier == "quick" else 4000
    for i in range(n):
        version = rng.random() < 0.5
        store = [(nm, G.gen_body(rng)) for nm in rng.sample(NAME_POOL, rng.randrange(0, 4))]
        active = rng.choice([k for k, _ in store] + [None]) if store else None
        rc = Reactive(drv, rng, version=version, store=store, active=active, maxsize=rng.choice([30, 100000]),
                      maxscripts=rng.choice([2, 50]), eol=rng.random() < 0.8, segment=random_segmenter(rng),
                      choices=[rng.randrange(0, 16) for _ in range(400)])
        steps = rng.randrange(1, 31)
        ops = [("connect", b"user", b"secret", b"", False, None)]
        for _ in range(steps):
            k = rng.choice(["listscripts", "getscript", "putscript", "deletescript", "setactive", "renamescript",
                            "havespace", "checkscript", "capability", "listscripts", "getscript"])
            nm, nm2 = rng.choice(NAME_POOL), rng.choice(NAME_POOL)
            if k in ("getscript", "deletescript"):
                ops.append((k, nm))
            elif k == "setactive":
                ops.append((k, rng.choice([nm, b""])))
            elif k == "putscript":
                ops.append((k, nm, G.gen_body(rng).decode("utf-8", "replace").encode("utf-8")))
            elif k == "renamescript":
                ops.append((k, nm, nm2))
            elif k == "havespace":
                ops.append((k, nm, rng.choice([1, 50, 10 ** 7])))
            elif k == "checkscript":
                if version:
                    ops.append((k, b"keep;"))
            else:
                ops.append((k,))
        if rng.random() < 0.3:
            ops.append(("logout",))     # ends the session: the reply to LOGOUT is read before the socket is closed
        trace = []
        desc = {"property": "C15", "server": rc.describe(), "ops": [[repr(x) for x in o] for o in ops]}
        for j, op in enumerate(ops):
            before = rc.dump()
            # the functional specification (ms/Spec.v, theorem C15_session_refines_spec) on the server state before
            spec = None
            if op[0] != "connect":
                spec = drv.ask("spec_op %d %s" % (1 if version else 0, I.op_tokens(op)))
            caps = drv.ask("spec_caps") if op[0] == "capability" else None
            ri, rm, _ = rc.both(op)
            after = rc.dump()
            trace.append(ri)
            report.case((i, j, op), len(ops) > 3)
            report.count("op:" + op[0])
            mismatch = ri != rm
            if spec is not None and spec != "none":
                report.count("spec-defined")
                sv, sdump = spec.split(" ", 1)
                sd = dict(kv.split("=", 1) for kv in sdump.split(" "))
                ad = dict(kv.split("=", 1) for kv in drv.ask("srv_dump").split(" "))
                got = ri.split(" ")[0]
                if got != "D:" + sv or (sd["store"], sd["active"]) != (ad["store"], ad["active"]):
                    mismatch = True
                    report.broke("correspondence C15 (functional specification spec_op vs real client and server data)",
                                 "step %d %r client=%r spec=%r server store=%s active=%s spec store=%s active=%s"
                                 % (j, op, got, sv, ad["store"], ad["active"], sd["store"], sd["active"]),
                                 dict(desc, step=j))
            elif spec == "none":
                report.count("spec-undefined:" + op[0])
            if caps is not None:
                report.count("spec-capability")
                got = ri.split(" ")[0]
                if got != "D:" + caps:
                    mismatch = True
                    report.broke("correspondence C15 (CAPABILITY: the text the reference server writes vs what the real client returns)",
                                 "step %d client=%r server text=%r" % (j, got, caps), dict(desc, step=j))
            if mismatch:
                report.broke("correspondence C15 (session step: model client vs real client)",
                             "step %d %r impl=%r model=%r" % (j, op, ri, rm), dict(desc, step=j))
            # the property itself is evaluated on the real client whether or not the model agrees
            head = ri.split(" ")[0]
            problem = None
            if after["bad"]:
                problem = "server received a malformed command or a command in an illegal state"
            want = abstract_answer(op, before)
            if isinstance(want, str) and head != want:
                problem = "client reports %s, server state says %s" % (head, want)
            if isinstance(want, tuple):
                got = unhx(head[4:]) if head.startswith("D:b:") else None
                if got is None or norm_lines(got) != norm_lines(want[1]):
                    problem = "getscript returned %r, server holds %r" % (got if got is not None else head, want[1])
            if op[0] in ("putscript", "deletescript", "setactive", "renamescript") and head in ("D:true", "D:false"):
                changed = (before["store"], before["active"]) != (after["store"], after["active"])
                if head == "D:false" and changed:
                    problem = "client reports failure but the server state changed"
                if head == "D:true" and op[0] == "putscript" and dict(after["store"]).get(op[1]) is None:
                    problem = "client reports success but the script is not on the server"
                if head == "D:true" and op[0] == "deletescript" and op[1] in dict(after["store"]):
                    problem = "client reports success but the script is still on the server"
            if op[0] == "renamescript" and head in ("D:true", "D:false"):
                # the statement of C14 (nothing lost, nothing overwritten, success means renamed) holds inside sessions too,
                # for the native command and for the emulation
                complaints = rename_oracle(before, after, op[1], op[2], head)
                if head == "D:true" and (op[1] not in dict(before["store"]) or op[2] in dict(before["store"])):
                    complaints.append("reported success although the server must refuse (old missing or new exists)")
                if complaints:
                    problem = "rename: " + "; ".join(complaints)
            if head.startswith("F:") and head != "F:NotImplementedError":
                problem = "operation raised %s against a conforming server" % head
            if problem:
                report.violation("session step %d %r: %s" % (j, op, problem), dict(desc, step=j, trace=trace))
                break
            if mismatch:
                break
        ms = rc.dump("model")
        fs = rc.dump()
        if (ms["store"], ms["active"]) != (fs["store"], fs["active"]) and not report.broken:
            report.broke("correspondence C15 (final server state)", "impl-side=%r model-side=%r" % (fs, ms), desc)
        rc.close()
    drv.close()


# ------------------------------------------------------------------ C16

import base64 as _b64

SUPPORTED = [b"DIGEST-MD5", b"PLAIN", b"LOGIN", b"OAUTHBEARER"]
CRED_ATOMS = ["user", "pässwörd", "a,b", "x=y", 'q"uote', "sp ace", "日本語", "a\\b", "=2C", ",", "=", "u@example.org",
              "x" * 40, "tok.en-_~+/=="]


def expected_mech(announced, authmech):
    cands = [authmech] if (authmech is not None and authmech in SUPPORTED) else SUPPORTED
    for m in cands:
        if m in announced:
            return m
    return None


def unsaslname(b):
    out, i = b"", 0
    while i < len(b):
        if b[i:i + 3] == b"=2C":
            out += b","
            i += 3
        elif b[i:i + 3] == b"=3D":
            out += b"="
            i += 3
        elif b[i:i + 1] in (b"=", b","):
            return None
        else:
            out += b[i:i + 1]
            i += 1
    return out


def decode_auth(drv, log):
    """Parse the AUTHENTICATE exchange out of the write log with the strict parser.
    Returns (mech, credentials tuple or None, number of AUTHENTICATE commands)."""
    mech, creds, nauth = None, None, 0
    conts = []
    for e in log:
        if e[0] != "S":
            continue
        p = drv.ask("parse_cmd " + hx(e[3]))
        if p.startswith("cmd "):
            _, verb, args, rest = p.split(" ")
            if unhx(verb) == b"AUTHENTICATE":
                nauth += 1
                al = [unhx(a[2:]) for a in args.split(",")] if args != "-" else []
                mech = al[0] if al else None
                rest_args = al[1:]
                if mech == b"PLAIN" and len(rest_args) == 1:
                    try:
                        raw = _b64.b64decode(rest_args[0], validate=True)
                        parts = raw.split(b"\0")
                        creds = tuple(parts) if len(parts) == 3 else None
                    except Exception:
                        creds = None
                elif mech == b"OAUTHBEARER" and len(rest_args) == 1:
                    try:
                        raw = _b64.b64decode(rest_args[0], validate=True)
                        if raw.startswith(b"n,a=") and raw.endswith(b"\x01\x01"):
                            name, _, tail = raw[4:].partition(b",")
                            if tail.startswith(b"\x01auth=Bearer "):
                                creds = (unsaslname(name), tail[len(b"\x01auth=Bearer "):-2])
                    except Exception:
                        creds = None
        elif p.startswith("cont "):
            conts.append(unhx(p.split(" ")[1]))
        else:
            return ("malformed:" + p, None, nauth)
    if mech == b"LOGIN":
        try:
            creds = tuple(_b64.b64decode(c, validate=True) for c in conts) if len(conts) == 2 else None
        except Exception:
            creds = None
    return mech, creds, nauth


def check_C16(report, tier, seed, replay=None):
    rng = common.rng_for(seed, "C16")
    drv = common.Driver("ms")
    report.rule = ("announced mechanism lists (all subsets/orders of DIGEST-MD5, PLAIN, LOGIN, OAUTHBEARER mixed with unknown "
                   "ones incl. look-alikes that contain an implemented name, empty) x preferred mechanism (none, each implemented, unknown, lower-case) x unicode credentials "
                   "(non-ASCII, commas, equals, quotes, spaces, empty or non-empty authorisation id) x server verdict; the "
                   "AUTHENTICATE exchange written by the real client is parsed by the strict parser and decoded per mechanism; "
                   "non-trivial = at least two announced mechanisms or non-ASCII/special credentials")
    # unknown names include look-alikes that CONTAIN or EXTEND an implemented name (an exact, whole-word match is required)
    pool = [b"DIGEST-MD5", b"PLAIN", b"LOGIN", b"OAUTHBEARER", b"SCRAM-SHA-1", b"GSSAPI", b"X-FOO", b"plain",
            b"PLAIN-CLIENTTOKEN", b"XOAUTHBEARER", b"X-LOGIN-TOKEN", b"LOGIN2", b"OAUTHBEARER-PLUS", b"XPLAIN"]
    n = 500 if tier == "quick" else 12000
    for i in range(n):
        k = rng.randrange(0, 5)
        announced = rng.sample(pool, k)
        authmech = rng.choice([None, None, b"PLAIN", b"LOGIN", b"OAUTHBEARER", b"DIGEST-MD5", b"X-FOO", b"plain"])
        login = rng.choice(CRED_ATOMS).encode()
        pw = rng.choice(CRED_ATOMS).encode()
        authz = rng.choice(["", "", "admin", "bøss"]).encode()
        good = rng.random() < 0.6
        rc = Reactive(drv, rng, sasl_pre=b" ".join(announced), login=login, password=pw if good else pw + b"!",
                      segment=random_segmenter(rng))
        op = ("connect", login, pw, authz, False, authmech)
        ri, rm, detail = rc.both(op)
        srv = rc.dump()
        log = list(rc.net.log)
        rc.close()
        want = expected_mech(announced, authmech)
        nontriv = len(announced) >= 2 or not (login + pw).isalnum()
        report.case((tuple(announced), authmech, login, pw, authz, good), nontriv,
                    {"announced": [a.decode() for a in announced], "authmech": authmech and authmech.decode(),
                     "login": login.decode(), "expected_mech": want and want.decode(), "result": ri.split(" ")[0]})
        report.count("mech:%s" % (want.decode() if want else "none"))
        desc = {"property": "C16", "server": rc.describe(), "op": [repr(x) for x in op]}
        if ri != rm:
            report.broke("correspondence C16 (connect: model vs client)", "impl=%r model=%r (%s)" % (ri, rm, detail), desc)
        head = ri.split(" ")[0]
        mech, creds, nauth = decode_auth(drv, log)
        if want == b"DIGEST-MD5":
            if head == "F:Crash":
                report.known_hit("digest-md5-python2")
                continue
        problem = None
        if isinstance(mech, bytes) and mech.startswith(b"malformed"):
            problem = "malformed bytes on the wire: %r" % mech
        elif want is None:
            if nauth != 0:
                problem = "no mechanism qualifies but AUTHENTICATE %r was sent" % mech
            elif head != "D:false":
                problem = "no mechanism qualifies but connect gave %s" % head
        else:
            if nauth != 1 or mech != want:
                problem = "expected one AUTHENTICATE with %r, saw %d with %r" % (want, nauth, mech)
            else:
                exp = {b"PLAIN": (authz, login, pw), b"LOGIN": (login, pw), b"OAUTHBEARER": (login, pw)}.get(want)
                if exp is not None and creds != exp:
                    problem = "credentials on the wire decode to %r, caller passed %r" % (creds, exp)
                elif (head == "D:true") != (good and srv["authed"]):
                    problem = "connect returned %s but server verdict was %s" % (head, srv["authed"])
                elif head not in ("D:true", "D:false"):
                    problem = "connect gave %s" % head
        if problem is None and head != "D:true" and " auth=1 " in ri + " ":
            problem = "connect gave %s but the client reports itself authenticated" % head
        if problem:
            report.violation("SASL: %s (announced %r, preferred %r)" % (problem, announced, authmech), desc)
    # the same client object used again after a successful session: a connect for which no mechanism qualifies (or which
    # the server refuses) sends what the rule says and does not keep the earlier verdict
    for i in range(60 if tier == "quick" else 1200):
        announced = rng.sample(pool, rng.randrange(0, 4))
        authmech = rng.choice([None, b"PLAIN", b"LOGIN", b"X-FOO"])
        verdict = rng.choice([b"OK", b"NO"])
        sess = I.canned_session([], authenticated=True)
        net = sess.net
        greeting = b'"IMPLEMENTATION" "x"\r\n' + (b'"SASL" "%s"\r\n' % b" ".join(announced) if (announced or i % 7) else b"") + b"OK\r\n"
        orig_c = net.connect

        def connect(orig_c=orig_c, net=net, greeting=greeting):
            sk = orig_c()
            net.queue = [greeting]
            return sk
        net.connect = connect
        orig_send = net.send

        def send(data, orig_send=orig_send, net=net, verdict=verdict):
            orig_send(data)
            w = first_word(data)
            if w == b"AUTHENTICATE" and b'"LOGIN"' in data:
                net.queue.append(b'""\r\n')          # LOGIN: the server asks for the next part
            elif w == b"AUTHENTICATE":
                net.queue.append(verdict + b"\r\n")
            elif not data.startswith(b"LOGOUT"):
                net.queue.append(b'""\r\n' if net.login_step == 0 else verdict + b"\r\n")
                net.login_step += 1
        net.login_step = 0
        net.send = send
        net.log = []
        ri, detail = sess.call(("connect", b"user", b"secret", b"", False, authmech))
        log = list(net.log)
        sess.close()
        want = expected_mech(announced, authmech)
        head = ri.split(" ")[0]
        report.case(("reuse", tuple(announced), authmech, verdict, i), True,
                    {"history": "successful session, then connect", "announced": [a.decode() for a in announced], "result": head})
        report.count("reuse:%s" % (want.decode() if want else "none"))
        if want == b"DIGEST-MD5":
            continue
        nauth = sum(1 for e in log if e[0] == "S" and first_word(e[3]) == b"AUTHENTICATE")
        problem = None
        if want is None and nauth:
            problem = "no mechanism qualifies but AUTHENTICATE was sent"
        elif want is None and head == "D:true":
            problem = "no mechanism qualifies but connect returned True"
        elif want is not None and (head == "D:true") != (verdict == b"OK"):
            problem = "connect gave %s but the server said %s" % (head, verdict.decode())
        elif head != "D:true" and " auth=1 " in ri + " ":
            problem = "connect gave %s but the client still reports itself authenticated (verdict of the earlier session kept)" % head
        if problem:
            report.violation("SASL on a reused client: %s (announced %r, preferred %r)" % (problem, announced, authmech),
                             {"property": "C16", "history": "successful session, then connect", "announced": [a.decode() for a in announced],
                              "authmech": authmech and authmech.decode(), "verdict": verdict.decode()})
    drv.close()


# ------------------------------------------------------------------ C10

PROBES = [("havespace", b"x", 1), ("listscripts",), ("getscript", b"x"), ("putscript", b"x", b"keep;"),
          ("checkscript", b"keep;"), ("deletescript", b"x"), ("renamescript", b"x", b"y"), ("setactive", b"x")]
SCRIPT_VERBS = [b"HAVESPACE", b"LISTSCRIPTS", b"GETSCRIPT", b"PUTSCRIPT", b"CHECKSCRIPT", b"DELETESCRIPT",
                b"RENAMESCRIPT", b"SETACTIVE"]


def first_word(data):
    return data.split(b" ", 1)[0].split(b"\r", 1)[0].upper()


def check_C10(report, tier, seed, replay=None):
    rng = common.rng_for(seed, "C10")
    drv = common.Driver("ms")
    report.rule = ("call histories (script commands before connect, after failed connect, after failed authentication, after "
                   "success, after a second connect that fails) x server behaviour at each handshake step (OK/NO/BYE/silence, "
                   "TLS handshake failure, STARTTLS unavailable, plaintext injected after the STARTTLS reply) x capability "
                   "sets with differing pre-/post-TLS SASL lists; oracle: the reference server's own authenticated flag and "
                   "the write log tagged plain/TLS; plus the static inventory of Client methods (translator -> Coq obligation)")
    reps = 1 if tier == "quick" else 8

    def probe_all(rc, label, desc):
        """Every script command must be refused with Error and write nothing while the server is not authenticated."""
        for p in PROBES:
            srv = rc.dump()
            nlog = len(rc.net.log)
            ri, rm, _ = rc.both(p)
            new = [e for e in rc.net.log[nlog:] if e[0] == "S"]
            report.case((label, p[0], srv["authed"]), True)
            if rm is not None and ri != rm:
                report.broke("correspondence C10 (probe after %s)" % label, "op=%r impl=%r model=%r" % (p, ri, rm), desc)
            if not srv["authed"]:
                if new or not ri.startswith("F:Error"):
                    report.violation("%s: %s while the connection is not authenticated wrote %r and gave %s"
                                     % (label, p[0], [e[3] for e in new], ri.split(" ")[0]), dict(desc, history=label, probe=p[0]))
                    return
            else:
                for e in new:
                    if first_word(e[3]) in SCRIPT_VERBS and rc.dump()["bad"]:
                        report.violation("%s: script command rejected by the server as illegal" % label, dict(desc, history=label))
                        return

    for rep in range(reps):
        # 1. never connected
        rc = Reactive(drv, rng)
        desc = {"property": "C10", "server": rc.describe()}
        for p in PROBES:
            ri, _ = rc.sess.call(p)
            report.case(("never-connected", p[0]), True, {"history": "never connected", "probe": p[0], "result": ri.split(" ")[0]})
            if rc.net.log or not ri.startswith("F:Error"):
                report.violation("script command before connect: %s gave %s, wrote %r" % (p[0], ri.split(" ")[0], rc.net.log),
                                 dict(desc, history="never connected", probe=p[0]))
        rc.close()
        # 2. connection refused
        rc = Reactive(drv, rng, refuse_connect=True)
        ri, _ = rc.sess.call(("connect", b"user", b"secret", b"", False, None))
        if not ri.startswith("F:Error"):
            report.violation("refused connection gave %s" % ri, {"property": "C10", "history": "connection refused"})
        for p in PROBES:
            r2, _ = rc.sess.call(p)
            report.case(("refused", p[0]), True)
            if rc.net.log or not r2.startswith("F:Error"):
                report.violation("script command after refused connection: %s" % r2, {"property": "C10", "history": "connection refused"})
        rc.close()
        # 3. authentication outcomes without TLS
        for fault in [None, (0, "no"), (0, "bye"), (0, "silent")]:
            for good in (True, False):
                for mech in (b"PLAIN", b"LOGIN", b"OAUTHBEARER"):
                    fl = [fault] if fault else []
                    if mech == b"LOGIN" and fault:
                        fl = [(2, fault[1])]      # the final reply of the LOGIN exchange
                    rc = Reactive(drv, rng, sasl_pre=mech, password=b"secret" if good else b"other", faults=fl,
                                  segment=random_segmenter(rng))
                    desc = {"property": "C10", "server": rc.describe()}
                    ri, rm, _ = rc.both(("connect", b"user", b"secret", b"", False, None))
                    label = "connect(%s, fault=%s, good=%s)" % (mech.decode(), fault, good)
                    report.count("connect:" + ri.split(" ")[0])
                    if ri != rm:
                        report.broke("correspondence C10 (%s)" % label, "impl=%r model=%r" % (ri, rm), desc)
                    srv = rc.dump()
                    if (ri.startswith("D:true")) != srv["authed"] and fault is None:
                        report.violation("%s returned %s but the server's authenticated flag is %s" % (label, ri.split(" ")[0], srv["authed"]),
                                         dict(desc, history=label))
                    probe_all(rc, label, desc)
                    # 4. reconnect: a second connect that fails must forget the first one
                    if good and fault is None:
                        rc.drv.ask("srv_feed " + hx(b""))  # no-op keeps both servers in step
                        ri2, rm2, _ = rc.both(("connect", b"user", b"WRONG", b"", False, None))
                        if ri2 != rm2:
                            report.broke("correspondence C10 (second connect)", "impl=%r model=%r" % (ri2, rm2), desc)
                        probe_all(rc, label + " then failing connect", desc)
                    rc.close()
                    # 4b. a second connect that fails BEFORE any AUTHENTICATE exchange (STARTTLS asked but not offered;
                    #     the only acceptable mechanism not announced) must forget the first session as well
                    if good and fault is None:
                        other = b"LOGIN" if mech != b"LOGIN" else b"PLAIN"
                        for why, second in (("STARTTLS not offered", ("connect", b"user", b"secret", b"", True, None)),
                                            ("mechanism not announced", ("connect", b"user", b"secret", b"", False, other))):
                            rc = Reactive(drv, rng, sasl_pre=mech, password=b"secret", segment=random_segmenter(rng))
                            desc = {"property": "C10", "server": rc.describe(), "second_connect": why}
                            r1, m1, _ = rc.both(("connect", b"user", b"secret", b"", False, None))
                            r2, m2, _ = rc.both(second)
                            if r1 != m1 or (m2 is not None and r2 != m2):
                                report.broke("correspondence C10 (second connect, %s)" % why,
                                             "impl=%r/%r model=%r/%r" % (r1, r2, m1, m2), desc)
                            if r2.startswith("D:true"):
                                report.violation("second connect (%s) reported success" % why, dict(desc, history=why))
                            probe_all(rc, "connect(%s) then connect failing early (%s)" % (mech.decode(), why), desc)
                            rc.close()
        # 5. STARTTLS
        tls_cases = [
            ("unavailable", dict(starttls=False), None, False),
            ("refused", dict(starttls=True, faults=[(0, "no")]), None, False),
            ("bye", dict(starttls=True, faults=[(0, "bye")]), None, False),
            ("silent", dict(starttls=True, faults=[(0, "silent")]), None, False),
            ("handshake-fails", dict(starttls=True, tls_fails=True), None, False),
            ("ok", dict(starttls=True), b"LOGIN", True),
            ("ok-auth-no", dict(starttls=True, faults=[(3, "no")]), b"LOGIN", False),
        ]
        for name, kw, want_mech, want_ok in tls_cases:
            rc = Reactive(drv, rng, sasl_pre=b"PLAIN", sasl_post=b"LOGIN", segment=random_segmenter(rng), **kw)
            desc = {"property": "C10", "server": rc.describe(), "op": "connect(starttls=True)"}
            ri, rm, detail = rc.both(("connect", b"user", b"secret", b"", True, None))
            report.case(("tls", name), True, {"history": "connect(starttls=True), STARTTLS " + name, "result": ri.split(" ")[0]})
            report.count("tls:" + name)
            if rm is not None and ri != rm:
                report.broke("correspondence C10 (STARTTLS %s)" % name, "impl=%r model=%r" % (ri, rm), desc)
            plain_auth = [e for e in rc.net.log if e[0] == "S" and not e[2] and first_word(e[3]) == b"AUTHENTICATE"]
            tls_auth = [e for e in rc.net.log if e[0] == "S" and e[2] and first_word(e[3]) == b"AUTHENTICATE"]
            if plain_auth:
                report.violation("STARTTLS %s: AUTHENTICATE written before the TLS handshake succeeded: %r" % (name, plain_auth[0][3]),
                                 dict(desc, history="STARTTLS " + name))
            if want_mech is None:
                if tls_auth or ri.startswith("D:true"):
                    report.violation("STARTTLS %s: connect did not fail (%s)" % (name, ri.split(" ")[0]), dict(desc, history="STARTTLS " + name))
            else:
                mech, creds, nauth = decode_auth(drv, [e for e in rc.net.log if e[0] == "S" and e[2]])
                if mech != want_mech:
                    report.violation("STARTTLS ok: mechanism %r was not chosen from the capabilities announced after the handshake (%r)"
                                     % (mech, want_mech), dict(desc, history="STARTTLS ok"))
                if ri.startswith("D:true") != want_ok:
                    report.violation("STARTTLS %s: connect gave %s" % (name, ri.split(" ")[0]), dict(desc, history="STARTTLS " + name))
            probe_all(rc, "STARTTLS " + name, desc)
            rc.close()
        # 6. plaintext injected together with the STARTTLS reply must not be taken for post-TLS capabilities
        for chunks in ([b'"SASL" "PLAIN"\r\n"STARTTLS"\r\nOK\r\n', b'OK\r\n"SASL" "PLAIN"\r\nOK\r\n'],
                       [b'"SASL" "PLAIN"\r\n"STARTTLS"\r\nOK\r\n', b'OK\r\n"SASL" "PLAIN"\r\n', b'OK\r\n']):
            net = I.Net()
            sess = I.Session(net)
            orig_c, orig_w = net.connect, net.wrap

            def connect():
                s = orig_c()
                net.queue = [chunks[0]]
                return s

            def wrap(sock):
                s = orig_w(sock)
                net.queue = [b'"SASL" "LOGIN"\r\nOK\r\n', b'OK\r\n']
                return s
            net.connect, net.wrap = connect, wrap
            orig_send = net.send

            def send(data):
                orig_send(data)
                if first_word(data) == b"STARTTLS":
                    net.queue.extend(chunks[1:])
            net.send = send
            ri, _ = sess.call(("connect", b"user", b"secret", b"", True, None))
            auths = [e for e in net.log if e[0] == "S" and first_word(e[3]) == b"AUTHENTICATE"]
            report.case(("tls-injection", len(chunks)), True, {"history": "plaintext injected after STARTTLS OK", "result": ri.split(" ")[0]})
            for e in auths:
                if not e[2] or b'"LOGIN"' not in e[3]:
                    report.violation("plaintext received before the TLS handshake decided the SASL mechanism: %r" % e[3],
                                     {"property": "C10", "history": "plaintext injection after STARTTLS", "chunks": [hx(c) for c in chunks]})
            sess.close()
        # 7. the capability listing expected after the handshake is missing / cut short / refused: nothing announced after
        #    the handshake, so no mechanism may be taken from the clear-text listing
        for why, post in (("silence", []), ("BYE", [b'BYE "go away"\r\n']), ("NO", [b'NO\r\n']),
                          ("listing without final OK", [b'"IMPLEMENTATION" "x"\r\n"SASL" "LOGIN"\r\n']),
                          ("listing cut mid-line", [b'"IMPLEMENTATION" "x"\r\n"SASL" "LOG']),
                          ("empty listing", [b'OK\r\n']), ("listing without SASL", [b'"IMPLEMENTATION" "x"\r\nOK\r\n'])):
            net = I.Net()
            sess = I.Session(net)
            orig_c, orig_w = net.connect, net.wrap

            def connect(orig_c=orig_c, net=net):
                s = orig_c()
                net.queue = [b'"IMPLEMENTATION" "x"\r\n"SASL" "PLAIN"\r\n"STARTTLS"\r\nOK\r\n']
                return s

            def wrap(sock, orig_w=orig_w, net=net, post=post):
                s = orig_w(sock)
                net.queue = list(post)
                return s
            net.connect, net.wrap = connect, wrap
            orig_send = net.send

            def send(data, orig_send=orig_send, net=net):
                orig_send(data)
                if first_word(data) == b"STARTTLS":
                    net.queue.append(b"OK\r\n")
                elif first_word(data) == b"AUTHENTICATE":
                    net.queue.append(b"OK\r\n")
            net.send = send
            ri, _ = sess.call(("connect", b"user", b"secret", b"", True, None))
            report.case(("tls-post-capability", why), True, {"history": "STARTTLS ok, then capability listing: " + why, "result": ri.split(" ")[0]})
            report.count("tls:post-capability-fault")
            announced_after = b"LOGIN" if why == "listing without final OK" else None
            for e in net.log:
                if e[0] == "S" and first_word(e[3]) == b"AUTHENTICATE":
                    if announced_after is None or (b'"%s"' % announced_after) not in e[3]:
                        report.violation("STARTTLS ok, post-handshake capabilities: %s -- yet %r was written (mechanism taken from the "
                                         "clear-text listing)" % (why, e[3]),
                                         {"property": "C10", "history": "STARTTLS ok; post-TLS capability listing: " + why})
                        break
            sess.close()
    drv.close()
