"""Checks for the Sieve parser/printer properties C01 C02 C03 C04 C07 C13 C18 C20.

Every check runs the same cases through
  * the extracted Coq model (sieve driver)  — correspondence on the property's projection,
  * the real parser (sieve_impl)            — the property's own oracle (sieve_spec: frozen
    signatures + RFC 5228 generic grammar), with failing cases attributed to known findings.
"""
import io
import itertools
import os
import subprocess

import common
import sieve_gen as G
import sieve_impl as I
import sieve_spec as S
from common import hx, unhx


def verdict_of(line):
    return line.split(" ", 1)[0]


def strip_comments(node_line):
    return node_line


def both(drv, text, want="tree"):
    impl, p, detail = I.run_parser(text, want)
    mod = drv.ask(("print " if want == "print" else "parse ") + hx(text))
    return impl, mod, p, detail


def case_stream(rng, tier, small_len=None, gen_n=None, full_len=2, with_layout=True, with_mutants=True,
                avoid_optpos_ratio=3):
    """Yield (tag, tokens, text).  tokens is None for byte-level cases."""
    pre = G.PREAMBLE
    for seq in G.sequences(G.FULL_VOCAB, full_len):
        yield "seq-full", seq, G.render(seq)
        if seq:
            yield "seq-full+req", pre + seq, G.render(pre + seq)
    for seq in G.structure_cases():
        yield "structure", seq, G.render(seq)
    for seq in G.repeat_cases():
        yield "repeat", seq, G.render(seq)
    for i, seq in enumerate(G.value_shape_cases()):
        yield "shape", seq, (G.render(seq) if i % 3 else G.render(seq, "\n"))
    n = small_len or (4 if tier == "quick" else 5)
    keep = 0.12 if tier == "quick" else 0.35
    for seq in G.sequences(G.SMALL_VOCAB, n):
        if len(seq) >= 4 and rng.random() > keep:
            continue
        r = rng.random()
        if r < 0.2:
            seq = G.flip_case(rng, seq)        # identifiers and tags are case-insensitive
        if r < 0.45:
            yield "seq-small", seq, G.render(seq)
        elif r < 0.75:
            yield "seq-small+req", pre + seq, G.render(pre + seq)
        else:
            # only command-owning extensions required: tag / match-type gates stay observable
            yield "seq-small+partreq", G.PARTIAL_PREAMBLE + seq, G.render(G.PARTIAL_PREAMBLE + seq)
    m = gen_n or (1200 if tier == "quick" else 20000)
    for i in range(m):
        toks, needs = G.gen_script(rng, avoid_optpos=(i % avoid_optpos_ratio != 0))
        yield "generated", toks, G.render(toks)
        if with_layout:
            yield "layout", toks, G.render_layout(rng, toks)
        if with_mutants:
            for kind, j, mt in G.mutants(rng, toks, 2):
                yield "mutant-" + kind, mt, G.render(mt)
            for kind, j, mt in G.structural_mutants(rng, toks, 2):
                yield "mutant-" + kind, mt, G.render(mt)


KF_OPTPOS = "optional-positional-arguments"
KF_KEEPFLAGS = "keep-flags-rejected"


def neutralize(toks):
    """Replace every use of keep-with-arguments / setflag / addflag / removeflag / hasflag by a neutral
    construct of the same role (stop; / true).  Returns (tokens, set of finding ids) ."""
    out, found, i = [], set(), 0
    while i < len(toks):
        k, v = toks[i]
        low = v.lower() if k == "id" else None
        is_keep_args = low == "keep" and i + 1 < len(toks) and toks[i + 1][0] in ("tag", "str", "[", "num", "ml")
        if k == "id" and (low in S.OPTPOS or is_keep_args):
            found.add(KF_KEEPFLAGS if low == "keep" else KF_OPTPOS)
            j, depth = i + 1, 0
            while j < len(toks):
                kk = toks[j][0]
                if kk == "[":
                    depth += 1
                elif kk == "]":
                    depth -= 1
                elif depth == 0 and kk in (";", "{", "}", ",", ")", "(", "id"):
                    break
                j += 1
            out.append(("id", "true" if low == "hasflag" else "stop"))
            i = j
            continue
        out.append(toks[i])
        i += 1
    return out, found


def attribute(v, toks, judge_impl=None):
    """Known-finding class of a spec/implementation disagreement on toks, or None.  The disagreement is
    attributed only if it disappears once the commands of the known-finding classes are neutralised, so a
    different violation in the same script is still reported."""
    ntoks, found = neutralize(toks)
    if not found:
        return None
    if found == {KF_KEEPFLAGS} and judge_impl is not None and not (v.valid and judge_impl == "reject"):
        # the finding is "a valid keep with arguments is REJECTED"; an invalid one that is accepted is something else
        return None
    nv = S.judge(ntoks)
    impl, _, _ = I.run_parser(G.render(ntoks))
    if nv.unclaimed and nv.valid:
        return sorted(found)[0]
    want = "accept" if nv.valid else "reject"
    if verdict_of(impl) == want:
        return sorted(found)[0]
    return None


# ------------------------------------------------------------------ C01

def check_C01(report, tier, seed, replay=None):
    rng = common.rng_for(seed, "C01")
    drv = common.Driver("sieve")
    report.rule = ("token sequences: every sequence up to length 2 over the full vocabulary (%d symbols: every supported "
                   "command, tag, bracket, token class), with and without a require preamble; sequences up to length 4/5 over "
                   "a 23-symbol vocabulary (sampled above length 3 in the quick tier); scripts from the grammar-directed "
                   "generator (frozen signatures, every command, tag subsets and orders, string/list/multi-line forms, nesting), "
                   "their layout variants (whitespace kinds, CRLF, comments, letter case) and single-edit mutants; "
                   "oracle = RFC 5228 generic grammar + frozen signatures; non-trivial = more than one token" % len(G.FULL_VOCAB))
    plain = {}
    for tag, toks, text in case_stream(rng, tier):
        impl, mod, p, detail = both(drv, text)
        vi, vm = verdict_of(impl), verdict_of(mod)
        report.case(text, len(toks) > 1, {"kind": tag, "script": text.decode("utf-8", "replace")[:200], "verdict": vi})
        report.count("kind:" + tag.split("-")[0])
        report.count("verdict:" + vi)
        if vi != vm:
            report.broke("correspondence C01 (verdict: model vs parser)", "script=%r impl=%s model=%s" % (text, impl[:200], mod[:200]),
                         {"script": hx(text)})
        v = S.judge(toks)
        desc = {"property": "C01", "script": hx(text), "text": text.decode("utf-8", "replace")}
        if tag == "layout":
            base = plain.get(tuple(toks))
            if base is not None and base != vi and vi in ("accept", "reject"):
                # multi-line tokens are re-rendered with CRLF: same tokens, so the verdict must agree
                report.violation("verdict depends on layout: %r is %s but its plain rendering is %s" % (text, vi, base), desc)
        elif tag == "generated":
            plain[tuple(toks)] = vi
        if v.unclaimed and v.valid:
            report.count("outside-claim")
            continue
        want = "accept" if v.valid else "reject"
        if vi != want:
            kf = attribute(v, toks, vi)
            if kf and vi in ("accept", "reject"):
                report.known_hit(kf)
                continue
            report.violation("parser says %s, specification says %s (%s): %r" % (vi, want, v.why or "valid", text), desc)
    drv.close()


# ------------------------------------------------------------------ C02

BYTE_EDITS = [b"\xff", b"\xc3", b"\x00", b"\xe2\x82\xac", b"\xf0\x9f\x98\x80", b'"', b"/*", b"text:\n", b"\\", b"#",
              b"\r", b"\n", b"{", b"(", b"[", b"control", b"action", b"test", b"unknown", b"command", b"\xed\xa0\x80",
              b"\xc0\xaf", b"\xf4\x90\x80\x80", b"%", b":", b"text:", b"'"]


def byte_mutants(rng, text, n):
    out = []
    for _ in range(n):
        i = rng.randrange(0, len(text) + 1)
        e = rng.choice(BYTE_EDITS)
        kind = rng.choice(["ins", "rep", "trunc", "del"])
        if kind == "ins":
            out.append(text[:i] + e + text[i:])
        elif kind == "rep":
            out.append(text[:i] + e + text[i + 1:])
        elif kind == "trunc":
            out.append(text[:i])
        else:
            out.append(text[:i] + text[i + rng.randrange(1, 4):])
    return out


def shape_problem(impl, p, text):
    if impl in ("crash", "printcrash", "badreject") or impl.startswith("badverdict"):
        return "parse raised or returned a non-boolean: %s" % impl
    if impl == "fuel":
        return "parse did not return within 2 s"
    if impl.startswith("reject"):
        import re
        m = re.match(r"line (\d+): .+", p.error, re.S)
        if not m:
            return "error text %r is not of the form 'line N: <reason>'" % p.error
        n = int(m.group(1))
        if not (1 <= n <= 1 + text.count(b"\n")):
            return "line number %d outside 1..%d" % (n, 1 + text.count(b"\n"))
        ep = p.error_pos
        if not (isinstance(ep, tuple) and len(ep) == 3 and all(isinstance(x, int) for x in ep)):
            return "error_pos %r is not a triple of integers" % (ep,)
    elif impl.startswith("accept"):
        if not isinstance(p.result, list):
            return "result is not a list"
    return None


def check_C02(report, tier, seed, replay=None):
    rng = common.rng_for(seed, "C02")
    drv = common.Driver("sieve")
    report.rule = ("token sequences (as C01) plus byte-level mutants of generated valid scripts: invalid UTF-8 (lone "
                   "continuation/lead bytes, surrogates, overlongs, > U+10FFFF), NUL, multi-byte characters before the error "
                   "point, unterminated strings/comments/multi-line blocks/brackets, identifiers that collide with internal "
                   "class names; each run under a 2 s timer with the lexer's yields counted; non-trivial = at least 2 bytes")
    from sievelib.parser import Lexer
    counter = [0]
    orig_scan = Lexer.scan

    def counting_scan(self, text):
        for tok in orig_scan(self, text):
            counter[0] += 1
            yield tok
    Lexer.scan = counting_scan
    try:
        def one(tag, text):
            counter[0] = 0
            impl, mod, p, detail = both(drv, text)
            steps = counter[0]
            report.case(text, len(text) >= 2, {"kind": tag, "input": repr(text)[:160], "outcome": impl[:60], "lexer_yields": steps})
            report.count("kind:" + tag.split("-")[0])
            report.count("outcome:" + verdict_of(impl))
            if impl != mod:
                # projection of C02: outcome class and error shape (category, position)
                report.broke("correspondence C02 (outcome class / error position: model vs parser)",
                             "input=%r impl=%s (%s) model=%s" % (text, impl[:200], detail, mod[:200]), {"input": hx(text)})
            desc = {"property": "C02", "input": hx(text), "text": repr(text)}
            prob = shape_problem(impl, p, text)
            if prob is None and steps > 2 * len(text) + 2:
                prob = "lexer yielded %d tokens for %d bytes" % (steps, len(text))
            if prob:
                report.violation("%s on %r (%s)" % (prob, text, detail), desc)
        for tag, toks, text in case_stream(rng, tier, gen_n=(300 if tier == "quick" else 5000), with_mutants=False):
            one(tag, text)
        for i in range(1500 if tier == "quick" else 40000):
            toks, needs = G.gen_script(rng, avoid_optpos=(i % 3 != 0))
            text = G.render_layout(rng, toks) if i % 2 else G.render(toks)
            for mt in byte_mutants(rng, text, 3):
                one("bytes-mutant", mt)
        # collisions with internal class names and degenerate inputs
        for t in [b"", b" ", b"\n", b"control;", b"action;", b"test;", b"if test {}", b"unknown;", b"command;", b"require;",
                  b"Command;", b"keep (true);", b'keep "\xff";', b"# \xff\nkeep 1;", b'"\xc3\xa9\xc3\xa9\xc3\xa9\xc3\xa9" x',
                  b'require ["imap4flags"]; if hasflag {}', b"text:" + b"\n" * 3000, b"/*" * 2000, b'"' + b"\\" * 1001,
                  b"if " + b"not " * 300 + b"true {}", b"if anyof(" * 100, b"{" * 500, b"a" * 5000]:
            one("special", t)
        # the same bytes through parse_file and as text: a file holding them gets exactly the verdict, error text and error
        # position parse(bytes) gets; a str (bytes that are not UTF-8 arrive as lone surrogates) gets a verdict too; no call raises
        import os
        import tempfile
        from sievelib.parser import Parser
        samples = [b"", b"keep;", b"keep;\rstop;\rfoo;\r", b"\xef\xbb\xbfkeep;", b"# caf\xe9\nkeep;", b'fileinto "caf\xe9";',
                   b"keep;\n# \xc3", b"\xff\x00\xfe", b'require "fileinto";\r\nfileinto "a\r\nb";\r\n', b"if true {\r\n  foo;\r\n}",
                   b'keep "\xff";', b"text:\r\nx\r\n.\r\n"]
        for i in range(60 if tier == "quick" else 1500):
            toks, needs = G.gen_script(rng, avoid_optpos=True)
            samples.extend(byte_mutants(rng, G.render_layout(rng, toks), 1))
        fd, path = tempfile.mkstemp(prefix="c02_", suffix=".sieve")
        os.close(fd)
        try:
            for t in samples:
                ref = Parser()
                ok = ref.parse(t)
                want = (ok, None if ok else ref.error, None if ok else ref.error_pos)
                with open(path, "wb") as f:
                    f.write(t)
                report.case(("file", t), len(t) >= 2, {"kind": "parse_file", "input": repr(t)[:120]})
                report.count("kind:parse_file")
                desc = {"property": "C02", "input": hx(t), "text": repr(t), "through": "parse_file"}
                try:
                    pf = Parser()
                    okf = pf.parse_file(path)
                    got = (okf, None if okf else pf.error, None if okf else pf.error_pos)
                except Exception as e:  # noqa
                    report.violation("parse_file raised %s: %s on a file holding %r" % (type(e).__name__, e, t), desc)
                    continue
                if got != want:
                    report.violation("parse_file and parse disagree on %r: file %r, bytes %r" % (t, got, want), desc)
                    continue
                report.count("kind:parse-text")
                try:
                    ps = Parser()
                    oks = ps.parse(t.decode("utf-8", "surrogateescape"))
                except Exception as e:  # noqa
                    report.violation("parse raised %s: %s on the text %r" % (type(e).__name__, e, t.decode("utf-8", "surrogateescape")),
                                     dict(desc, through="parse(str)"))
                    continue
                if oks is not True and oks is not False:
                    report.violation("parse returned %r on a text" % (oks,), dict(desc, through="parse(str)"))
                elif oks is False and not (isinstance(ps.error, str) and ps.error.startswith("line ")):
                    report.violation("parse(str) returned False with error %r" % (ps.error,), dict(desc, through="parse(str)"))
        finally:
            os.unlink(path)
    finally:
        Lexer.scan = orig_scan
    drv.close()


# ------------------------------------------------------------------ C03

def leaves_impl(c, commands):
    """(positional values in definition order, set of (tag, param)) of an implementation node."""
    pos, tags = [], []
    for a in c.args_definition:
        if a["name"] not in c.arguments:
            continue
        v = c.arguments[a["name"]]
        if isinstance(v, commands.Command) or (isinstance(v, list) and v and isinstance(v[0], commands.Command)):
            continue
        if "tag" in a["type"] and not a.get("required", False):
            tags.append((v.lower(), norm_val(c.extra_arguments.get(a["name"]))))
        else:
            pos.append(norm_val(v.lower() if isinstance(v, str) and v.startswith(":") else v))
    extra_names = set(c.extra_arguments) - set(c.arguments)
    unknown = set(c.arguments) - set(a["name"] for a in c.args_definition)
    return pos, sorted(tags, key=repr), extra_names | unknown


def norm_scalar(v):
    # a multi-line string: the token ends at the final dot; line-ending style is layout
    if isinstance(v, str) and v.startswith("text:"):
        return v.replace("\r\n", "\n").rstrip("\r\n")
    return v


def norm_val(v):
    if v is None:
        return None
    if isinstance(v, list):
        return ("l", tuple(v))
    return ("s", norm_scalar(v))


def leaves_spec(g):
    """Same projection computed from the generic tree and the frozen signature."""
    spec = S.SPEC[g.name.lower()]
    args = list(g.args)
    tags, i = [], 0
    groups = spec["groups"]
    while i < len(args) and args[i][0] == "tag":
        tag = args[i][1].lower()
        grp = next((x for x in groups if tag in x), None)
        if grp is None:
            break
        ptype = grp[tag][0]
        i += 1
        param = None
        if ptype is not None and i < len(args):
            a = args[i]
            param = ("l", tuple(a[1])) if a[0] == "l" else ("s", norm_scalar(a[1]))
            i += 1
        tags.append((tag, param))
    pos = [("l", tuple(a[1])) if a[0] == "l" else ("s", norm_scalar(a[1].lower() if a[0] == "tag" else a[1])) for a in args[i:]]
    return pos, sorted(tags, key=repr)


def iso(c, g, commands, path="script"):
    """None if the implementation node c represents the generic command/test g faithfully, else a complaint."""
    if c.name != g.name.lower():
        return "%s: command %r represented as %r" % (path, g.name, c.name)
    ipos, itags, junk = leaves_impl(c, commands)
    spos, stags = leaves_spec(g)
    if junk:
        return "%s: arguments stored under undefined names %r" % (path, sorted(junk))
    if ipos != spos:
        return "%s %s: positional arguments %r in the tree, %r in the source" % (path, c.name, ipos, spos)
    if itags != stags:
        return "%s %s: tagged arguments %r in the tree, %r in the source" % (path, c.name, itags, stags)
    itests = []
    for a in c.args_definition:
        v = c.arguments.get(a["name"])
        if isinstance(v, commands.Command):
            itests.append(v)
        elif isinstance(v, list) and v and isinstance(v[0], commands.Command):
            itests += v
    stests = g.tests or []
    if len(itests) != len(stests):
        return "%s %s: %d tests in the tree, %d in the source" % (path, c.name, len(itests), len(stests))
    for k, (ct, gt) in enumerate(zip(itests, stests)):
        r = iso(ct, gt, commands, "%s/%s.test[%d]" % (path, c.name, k))
        if r:
            return r
    sblock = g.block or []
    if len(c.children) != len(sblock):
        return "%s %s: %d commands in the block of the tree, %d in the source" % (path, c.name, len(c.children), len(sblock))
    for k, (cc, gc) in enumerate(zip(c.children, sblock)):
        r = iso(cc, gc, commands, "%s/%s.block[%d]" % (path, c.name, k))
        if r:
            return r
    return None


def check_C03(report, tier, seed, replay=None):
    from sievelib import commands
    rng = common.rng_for(seed, "C03")
    drv = common.Driver("sieve")
    report.rule = ("every ACCEPTED input among the token sequences, generated scripts, layout variants and single-edit mutants "
                   "(as C01): the tree in Parser.result is compared with the tree of an independent recursive-descent parser of "
                   "the RFC 5228 generic grammar (names, nesting, order of commands/tests/positional arguments, every tag with "
                   "its parameter, nothing else); and with the model's tree; non-trivial = accepted with at least one argument")
    for tag, toks, text in case_stream(rng, tier):
        impl, mod, p, detail = both(drv, text)
        if not impl.startswith("accept"):
            report.count("not-accepted")
            continue
        report.case(text, any(t[0] in ("str", "tag", "num", "ml") for t in toks),
                    {"kind": tag, "script": text.decode("utf-8", "replace")[:160], "tree": impl[7:200]})
        report.count("kind:" + tag.split("-")[0])
        if impl != mod:
            report.broke("correspondence C03 (tree: model vs parser)", "script=%r impl=%s model=%s" % (text, impl[:300], mod[:300]),
                         {"script": hx(text)})
        tree = S.gparse(toks)
        desc = {"property": "C03", "script": hx(text), "text": text.decode("utf-8", "replace")}
        v = S.judge(toks)
        if "repeated optional tag group" in v.unclaimed:
            report.count("outside-claim")
            continue
        if tree is None or len(tree) != len(p.result):
            kf = attribute(v, toks)
            if kf:
                report.known_hit(kf)
                continue
            report.violation("accepted script is not in the generic grammar or has %s top-level commands in the tree: %r"
                             % (len(p.result), text), desc)
            continue
        complaint = None
        for c, g in zip(p.result, tree):
            if g.name.lower() not in S.SPEC:
                complaint = "unknown command accepted"
                break
            try:
                complaint = iso(c, g, commands)
            except KeyError as e:
                complaint = "unknown command %s in accepted tree" % e
            if complaint:
                break
        if complaint:
            # attributed only when the difference sits in a use of one of the four commands themselves
            if any((" %s: " % n) in complaint for n in S.OPTPOS) and attribute(v, toks):
                report.known_hit(KF_OPTPOS)
                continue
            report.violation("tree differs from the source: %s in %r" % (complaint, text), desc)
    drv.close()


# ------------------------------------------------------------------ C04

EDGE_VALUES = ['"a\\"b"', '"back\\\\slash"', '"end\\\\"', '"[x]"', '"a,b"', '"two\nlines"', '"café"', '""', '"\\"\\""',
               '"]"', '"a\\\\\\"b"', '"x;y{z}"', '"# not a comment"', '"/* nor this */"', '"text:"', '"\t"', '"a\\qb"']


def check_C04(report, tier, seed, replay=None):
    from sievelib import commands
    rng = common.rng_for(seed, "C04")
    drv = common.Driver("sieve")
    report.rule = ("every accepted input among token sequences, generated scripts (every command, tag subsets/orders, "
                   "string/list/multi-line forms, nesting), layouts, mutants, and scripts whose values come from a quoting-edge "
                   "generator (escaped quotes, backslashes, brackets, commas, newlines, non-ASCII, comment look-alikes): "
                   "tosieve -> parse -> same tree -> tosieve gives the same text; model text vs parser text; "
                   "non-trivial = the script has at least one string or list value")
    saved = G.STR_VALUES[:]

    def one(tag, toks, text):
        impl, mod, p, detail = both(drv, text, "print")
        if not impl.startswith("accept"):
            if impl == "printcrash":
                report.violation("tosieve raised on an accepted script %r: %s" % (text, detail), {"property": "C04", "script": hx(text)})
            return
        out1 = unhx(impl.split(" ", 1)[1])
        report.case(text, any(t[0] in ("str", "ml") for t in (toks or [])) or b'"' in text,
                    {"kind": tag, "script": text.decode("utf-8", "replace")[:120], "printed": out1.decode("utf-8", "replace")[:120]})
        report.count("kind:" + tag.split("-")[0])
        if impl != mod:
            report.broke("correspondence C04 (printed text: model vs parser)",
                         "script=%r impl=%r model=%r" % (text, out1, unhx(mod.split(" ", 1)[1]) if mod.startswith("accept") else mod),
                         {"script": hx(text)})
        desc = {"property": "C04", "script": hx(text), "text": text.decode("utf-8", "replace")}
        t1, _, _ = I.run_parser(text, "sorted")       # trees are compared as maps: dict order is not part of C04
        impl2, p2, detail2 = I.run_parser(out1, "sorted")
        if not impl2.startswith("accept"):
            report.violation("printed script is rejected: %r -> %r (%s)" % (text, out1, detail2), desc)
            return
        strip = lambda s: __import__("re").sub(r"h\[[^\]]*\]", "h[]", s)
        if strip(impl2) != strip(t1):
            report.violation("printed script parses to a different tree: %r -> %r" % (text, out1), desc)
            return
        impl3, _, _ = I.run_parser(out1, "print")
        if not impl3.startswith("accept") or unhx(impl3.split(" ", 1)[1]) != out1:
            report.violation("printing is not a fixed point: %r -> %r -> %r" % (text, out1, impl3[:80]), desc)
    try:
        for tag, toks, text in case_stream(rng, tier, gen_n=(1000 if tier == "quick" else 15000)):
            one(tag, toks, text)
        G.STR_VALUES[:] = EDGE_VALUES
        for i in range(1200 if tier == "quick" else 20000):
            toks, needs = G.gen_script(rng, avoid_optpos=(i % 4 != 0))
            one("edge-values", toks, G.render(toks))
    finally:
        G.STR_VALUES[:] = saved
    drv.close()


# ------------------------------------------------------------------ C07

FROZEN_CMD_EXT = {n: d["ext"] for n, d in S.SPEC.items() if d["ext"]}


def frozen_tag_ext(cmd, tag):
    for grp in S.SPEC[cmd]["groups"]:
        if tag in grp:
            return grp[tag][2]
    return None


def gate_walk(nodes, loaded, commands, path="script"):
    """Independent walk over Parser.result in script order with the frozen extension table."""
    for c in nodes:
        ext = FROZEN_CMD_EXT.get(c.name)
        if ext and ext not in loaded:
            return "%s: command %s used without require %r" % (path, c.name, ext)
        if c.name in S.SPEC:
            for name, v in c.arguments.items():
                if isinstance(v, str) and v.startswith(":"):
                    e = frozen_tag_ext(c.name, v.lower())
                    if e and e not in loaded:
                        return "%s: %s %s used without require %r" % (path, c.name, v, e)
        tests = []
        for a in c.args_definition:
            v = c.arguments.get(a["name"])
            if isinstance(v, commands.Command):
                tests.append(v)
            elif isinstance(v, list) and v and isinstance(v[0], commands.Command):
                tests += v
        r = gate_walk(tests, loaded, commands, path + "/" + c.name)
        if r:
            return r
        r = gate_walk(c.children, loaded, commands, path + "/" + c.name)
        if r:
            return r
        if c.name == "require":
            v = c.arguments.get("capabilities")
            items = v if isinstance(v, list) else ([v] if v is not None else [])
            for it in items:
                loaded.append(it.strip('"'))
    return None


def check_C07(report, tier, seed, replay=None):
    from sievelib import commands
    rng = common.rng_for(seed, "C07")
    drv = common.Driver("sieve")
    report.rule = ("forward: every accepted input whatsoever among token sequences (with and without a require preamble), "
                   "generated scripts, layouts, mutants (incl. those with some required extension deleted) is walked in script "
                   "order with a frozen command/tag/match-type -> extension table; removal: every (generated valid script, "
                   "needed extension) pair with that extension removed from its require must be rejected with the exact text "
                   "extension '<name>' not loaded; non-trivial = the script uses at least one extension")
    for tag, toks, text in case_stream(rng, tier, gen_n=(800 if tier == "quick" else 12000)):
        impl, mod, p, detail = both(drv, text)
        if impl != mod and (impl.startswith("accept") or mod.startswith("accept") or "ExtNotLoaded" in impl + mod):
            report.broke("correspondence C07 (verdict, tree, extension error: model vs parser)",
                         "script=%r impl=%s model=%s" % (text, impl[:200], mod[:200]), {"script": hx(text)})
        if not impl.startswith("accept"):
            continue
        uses = any(t[1].lower() in FROZEN_CMD_EXT for t in toks if t[0] == "id") or any(t[0] == "tag" for t in toks)
        report.case(text, uses, {"kind": tag, "script": text.decode("utf-8", "replace")[:160]})
        report.count("kind:" + tag.split("-")[0])
        r = gate_walk(p.result, [], commands)
        if r:
            report.violation("accepted script uses an extension before requiring it: %s in %r" % (r, text),
                             {"property": "C07", "script": hx(text), "text": text.decode("utf-8", "replace")})
    # removal direction
    n = 600 if tier == "quick" else 10000
    for i in range(n):
        needs = set()
        body = []
        for _ in range(rng.randrange(1, 4)):
            body += G.gen_command(rng, needs, 2, True)
        if not needs:
            continue
        for e in sorted(needs):
            rest = needs - {e}
            toks = G.require_tokens(rng, rest) + (G.flip_case(rng, body) if rng.random() < 0.5 else body)
            text = G.render(toks)
            impl, mod, p, detail = both(drv, text)
            report.case((text, e), True, {"kind": "removal", "removed": e, "script": text.decode("utf-8", "replace")[:160],
                                         "outcome": impl[:60]})
            report.count("kind:removal")
            if impl != mod:
                report.broke("correspondence C07 (removal: model vs parser)", "script=%r impl=%s model=%s" % (text, impl[:200], mod[:200]),
                             {"script": hx(text)})
            want = "extension '%s' not loaded" % e
            if not impl.startswith("reject") or not p.error.endswith(want):
                report.violation("removing %r from require: expected rejection with %r, got %s %r"
                                 % (e, want, verdict_of(impl), getattr(p, "error", None) if impl.startswith("reject") else ""),
                                 {"property": "C07", "script": hx(text), "text": text.decode("utf-8", "replace"), "removed": e})
            # the same on a Parser object that has just parsed the complete script (and, every other time, a
            # script rejected after its require completed): what an earlier script required is not loaded now
            if i % 2 == 0:
                from sievelib.parser import Parser
                reused = Parser()
                full = G.render(G.require_tokens(rng, needs) + body)
                first = I.run_parser(full, "sorted", parser=reused)[0]
                if i % 4 == 0:
                    I.run_parser(G.render(G.require_tokens(rng, needs)) + b" if {", "sorted", parser=reused)
                impl2, p2, _ = I.run_parser(text, "sorted", parser=reused)
                report.case((text, e, "reused"), True)
                report.count("kind:removal-reused-parser")
                if first.startswith("accept") and (not impl2.startswith("reject") or not p2.error.endswith(want)):
                    report.violation("a Parser that has parsed %r accepts / misreports the same script with %r removed from require: got %s %r"
                                     % (full, e, verdict_of(impl2), getattr(p2, "error", None) if impl2.startswith("reject") else ""),
                                     {"property": "C07", "history": [hx(full)], "script": hx(text), "text": text.decode("utf-8", "replace"), "removed": e})
    drv.close()


# ------------------------------------------------------------------ C18

def offset_to_linecol(text, off):
    before = text[:off]
    line = before.count(b"\n") + 1
    col = off - (before.rfind(b"\n") + 1) + 1
    return line, col


OFFENDERS = [
    # (category, text of the offending command, offending token, needs-not-loaded extension or None, lexical?)
    ("lexical", b"% x;", b"%", None, True),
    ("lexical", b"keep @;", b"@", None, True),
    ("lexical", b"'a';", b"'a';", None, True),
    ("unknown-command", b"foo \"a\";", b"foo", None, False),
    ("unknown-command", b"if frobnicate {}", b"frobnicate", None, False),
    ("command-extension", b"vacation \"x\";", b"vacation", "vacation", False),
    ("command-extension", b"if body :text \"a\" {}", b"body", "body", False),
    ("tag-extension", b"redirect :copy \"a\";", b":copy", "copy", False),
    ("matchtype-extension", b"if header :regex \"a\" \"b\" {}", b":regex", "regex", False),
    ("matchtype-extension", b"if address :count \"gt\" \"a\" \"b\" {}", b":count", "relational", False),
    ("unexpected-tag", b"redirect :bogus \"a\";", b":bogus", None, False),
    ("unexpected-tag", b"stop :x;", b":x", None, False),
    ("surplus-string", b"stop \"surplus\";", b"\"surplus\"", None, False),
    ("surplus-string", b"redirect \"a\" \"surplus\";", b"\"surplus\"", None, False),
    ("surplus-number", b"discard 10K;", b"10K", None, False),
    ("test-as-command", b"true;", b"true", None, False),
    ("test-as-command", b"exists \"a\";", b"exists", None, False),
    ("nontest-as-test", b"if keep {}", b"keep", None, False),
    ("nontest-as-test", b"if not stop {}", b"stop", None, False),
]
TAILS = [b"", b"\n", b" keep;\n", b"\n}}}} ((( [[[ \"unterminated", b"\r\n/* open comment", b" \xff\xfe garbage %%%", b" stop; discard;\r\n",
         b"\ntext:\nnever ends"]
COMMENTS = [b"# caf\xc3\xa9 \xe6\x97\xa5\xe6\x9c\xac\n", b"/* multi\nline \xe2\x82\xac */", b"# plain\r\n", b""]


# the instances of the rejection theorems derived in coq/sieve/RejectExamples.v (verdict, error and byte offset come from
# the theorems there): each is run on the real parser, so the theorem instances are confirmed on the implementation
_PX = b'require ["fileinto"];\nif size :over 100K {\n   '
THEOREM_CORPUS = [
    (_PX + b'foo "x"; }', 46, 3), (_PX + b'reject "x"; }', 46, 6), (_PX + b'true; }', 46, 4), (_PX + b'"x"; }', 46, 3),
    (b'} keep;', 0, 1), (_PX + b'if keep { stop; } }', 49, 4), (_PX + b'if "x" { stop; } }', 49, 3),
    (_PX + b'stop "x"; }', 51, 3), (_PX + b'fileinto 3; }', 55, 1), (_PX + b'fileinto :copy "x"; }', 55, 5),
    (_PX + b'keep { stop; } }', 51, 1), (_PX + b'keep stop; }', 51, 4), (b'stop; else { stop; } keep;', 19, 1),
    (b'require ["fileinto" "envelope"];', 20, 10), (b'require [];', 9, 1), (b'require ["fileinto",];', 20, 1),
    (_PX, 46, None), (_PX + b'stop', 50, None), (_PX + b'if anyof () { stop; } }', 56, 1),
    (_PX + b'if header :bogus "a" "b" { } }', 56, 6), (_PX + b'if header :regex "a" "b" { } }', 56, 6),
    (_PX + b'% keep;', 46, None), (_PX + b'if size :over 100K stop; }', 65, 4),
    (_PX + b'if anyof (foo, true) { } }', 56, 3), (_PX + b'if not keep { } }', 53, 4), (_PX + b'if not "x" { } }', 53, 3),
    (_PX + b'if anyof (true true) { } }', 61, 4), (_PX + b'if anyof (true, foo) { } }', 62, 3), (_PX + b'if anyof (true,) { } }', 61, 1),
    (_PX + b'if header ["a" "b"] "x" { } }', 61, 3)]


def check_C18(report, tier, seed, replay=None):
    rng = common.rng_for(seed, "C18")
    drv = common.Driver("sieve")
    report.rule = ("(valid multi-line script, insertion point at a command boundary, offending token of each category, tail): "
                   "categories = bytes that are no token, unknown command, command/tag/match-type whose extension is not loaded, "
                   "tag the command does not take, surplus string/number, test in command position, non-test in test position; "
                   "prefix with comments containing multi-byte characters, LF or CRLF; arbitrary tails (valid, garbage, "
                   "unterminated constructs, invalid UTF-8); expected (line, column, length) computed from the byte offset; plus "
                   "single-edit mutants for 'never before the first invalidating token' and tail independence")
    n = 900 if tier == "quick" else 20000
    for i in range(n):
        cat, cmd, tok, ext, lexical = OFFENDERS[i % len(OFFENDERS)]
        needs = set()
        cmds = []
        for _ in range(rng.randrange(0, 4)):
            cmds.append(G.gen_command(rng, needs, 2, True))
        needs.discard(ext)
        # avoid loading the extension whose absence is the point
        if ext is not None:
            cmds = [c for c in cmds if ext not in _needs_of(c)]
            needs = set().union(*[_needs_of(c) for c in cmds]) if cmds else set()
        eol = rng.choice([b"\n", b"\r\n"])
        k = rng.randrange(0, len(cmds) + 1)
        parts = []
        req = G.require_tokens(rng, needs)
        if req:
            parts.append(G.render(req))
        for c in cmds[:k]:
            parts.append(rng.choice(COMMENTS) + G.render(c))
        prefix = eol.join(parts) + (eol if parts else b"") + rng.choice(COMMENTS) + rng.choice([b"", b"  ", b"\t"])
        off = len(prefix) + cmd.index(tok)
        for tail in rng.sample(TAILS, 3):
            text = prefix + cmd + tail
            impl, mod, p, detail = both(drv, text)
            report.case((text,), True, {"category": cat, "script": text.decode("utf-8", "replace")[:200], "outcome": impl[:80]})
            report.count("category:" + cat)
            if impl != mod:
                report.broke("correspondence C18 (error position / category: model vs parser)",
                             "script=%r impl=%s model=%s" % (text, impl[:200], mod[:200]), {"script": hx(text)})
            desc = {"property": "C18", "script": hx(text), "text": text.decode("utf-8", "replace"), "category": cat}
            if not impl.startswith("reject"):
                report.violation("script with an offending %s token is not rejected: %r" % (cat, text), desc)
                continue
            line, col = offset_to_linecol(text, off)
            f = impl.split(" ")
            gl, gc, glen = int(f[3]), int(f[4]), int(f[5])
            eline = int(p.error.split(":")[0].split(" ")[1])
            ok = (gl, gc) == (line, col) and eline == line and (lexical or glen == len(tok))
            if not ok:
                report.violation("%s: offending token %r starts at line %d column %d (length %d) but error_pos=%r, error line %d in %r"
                                 % (cat, tok, line, col, len(tok), p.error_pos, eline, text), desc)
    # the instances of the rejection theorems (sieve/RejectExamples.v) on the real parser
    for text, off, tlen in THEOREM_CORPUS:
        impl, mod, p, detail = both(drv, text)
        report.case((text, "theorem"), True)
        report.count("category:theorem-instance")
        desc = {"property": "C18", "script": hx(text), "text": text.decode("utf-8", "replace"), "category": "theorem-instance"}
        if impl != mod:
            report.broke("correspondence C18 (instances of the rejection theorems: model vs parser)",
                         "script=%r impl=%s model=%s" % (text, impl[:160], mod[:160]), {"script": hx(text)})
        if not impl.startswith("reject"):
            report.violation("script rejected by theorem (sieve/RejectExamples.v) is accepted by the parser: %r" % text, desc)
            continue
        line, col = offset_to_linecol(text, off)
        f = impl.split(" ")
        gl, gc, glen = int(f[3]), int(f[4]), int(f[5])
        if (gl, gc) != (line, col) or (tlen is not None and glen != tlen):
            report.violation("theorem instance: the offending place is line %d column %d (length %s) but error_pos=%r in %r"
                             % (line, col, tlen, p.error_pos, text), desc)
    # a '{' that arrives while the test still lacks arguments: the report is at the '{' or later, never earlier
    for toks, j in G.brace_after_prefix_cases():
        for sep in (" ", "\n", "\r\n"):
            text = G.render(toks, sep)
            off = len(G.render(toks[:j], sep)) + len(sep.encode())
            impl, mod, p, detail = both(drv, text)
            report.case((text, "brace"), True)
            report.count("category:brace-after-prefix")
            if impl != mod:
                report.broke("correspondence C18 (brace after an argument prefix)", "script=%r impl=%s model=%s" % (text, impl[:160], mod[:160]),
                             {"script": hx(text)})
            if not impl.startswith("reject"):
                continue
            f = impl.split(" ")
            gl, gc = int(f[3]), int(f[4])
            lines = text.split(b"\n")
            got_off = sum(len(x) + 1 for x in lines[:gl - 1]) + gc - 1
            if got_off < off:
                report.violation("reported position (offset %d, line %d column %d) is before the '{' (offset %d) although everything "
                                 "before it is a prefix of a valid script: %r" % (got_off, gl, gc, off, text),
                                 {"property": "C18", "script": hx(text), "text": text.decode("utf-8", "replace")})
    # other rejections: never before the first invalidating token; independent of what follows
    m = 700 if tier == "quick" else 15000
    for i in range(m):
        toks, needs = G.gen_script(rng, avoid_optpos=(i % 3 != 0), ncmds=rng.randrange(2, 5))
        if i % 3 == 0:
            # setflag/addflag/removeflag/hasflag take part too (their known findings concern the verdict of some
            # valid scripts): only scripts the parser accepts are mutated
            if not I.run_parser(G.render(toks), "sorted")[0].startswith("accept"):
                continue
        for kind, j, mt in G.mutants(rng, toks, 3 if i % 3 == 0 else 2):
            # byte offset of token j in the rendering with single spaces
            text = G.render(mt)
            offs, o = [], 0
            for t in mt:
                offs.append(o)
                o += len(t[1].encode("utf-8")) + 1
            impl, mod, p, detail = both(drv, text)
            report.case((text, "mut"), True)
            report.count("category:mutant")
            if impl != mod:
                report.broke("correspondence C18 (mutants)", "script=%r impl=%s model=%s" % (text, impl[:160], mod[:160]), {"script": hx(text)})
            if not impl.startswith("reject"):
                continue
            f = impl.split(" ")
            gl, gc = int(f[3]), int(f[4])
            lines = text.split(b"\n")
            got_off = sum(len(x) + 1 for x in lines[:gl - 1]) + gc - 1
            first_bad = offs[j] if j < len(offs) else len(text)
            if kind == "swap" or kind == "del":
                first_bad = offs[j] if j < len(offs) else len(text)
            # tokens before index j form a prefix of a valid script, so nothing before offs[j] can be wrong
            desc = {"property": "C18", "script": hx(text), "text": text.decode("utf-8", "replace")}
            if got_off < min(first_bad, len(text.rstrip())) and not _is_multiline_prefix(mt, j):
                report.violation("reported position (offset %d) is before the first token that can make the script invalid (offset %d): %r"
                                 % (got_off, first_bad, text), desc)
            # tail independence: cut after the failing token and append something else
            end = got_off + int(f[5])
            if f[1] not in ("EndExpected", "EndUnfinished", "UnknownToken") and end <= len(text) and text[end:end + 1] in (b" ", b""):
                alt = text[:end] + b" " + rng.choice(TAILS)
                impl2, _, _ = I.run_parser(alt)
                if impl2.split(" ")[:6] != f[:6]:
                    report.violation("error position depends on what follows the offending token: %r gives %s, %r gives %s"
                                     % (text, " ".join(f[:6]), alt, impl2[:80]), dict(desc, alt=hx(alt)))
    drv.close()


def _needs_of(cmd_toks):
    """extensions a generated command needs (recomputed from the frozen table)."""
    out = set()
    cur = None
    for k, v in cmd_toks:
        if k == "id" and v.lower() in S.SPEC:
            cur = v.lower()
            if S.SPEC[cur]["ext"]:
                out.add(S.SPEC[cur]["ext"])
        elif k == "tag" and cur:
            e = frozen_tag_ext(cur, v.lower())
            if e:
                out.add(e)
    return out


def _is_multiline_prefix(toks, j):
    return any(t[0] == "ml" for t in toks[:j + 1])


# ------------------------------------------------------------------ C13

class Pristine:
    def __init__(self):
        env = dict(os.environ, PYTHONPATH=common.REPO, PYTHONHASHSEED="0", PYTHONWARNINGS="ignore",
                   PYTHONDONTWRITEBYTECODE="1")
        self.p = subprocess.Popen([common.PY, os.path.join(common.VERIF, "harness", "pristine_worker.py")],
                                  stdin=subprocess.PIPE, stdout=subprocess.PIPE, text=True, bufsize=1, env=env)

    def ask(self, job):
        import json
        self.p.stdin.write(job + "\n")
        self.p.stdin.flush()
        return json.loads(self.p.stdout.readline())

    def close(self):
        self.p.stdin.close()
        self.p.wait(timeout=10)


def observed(parser, text):
    a, p, d = I.run_parser(text, "tree", parser=parser)
    err = p.error if (p is not None and a.startswith("reject")) else ""
    b = ""
    if a.startswith("accept"):
        out = io.StringIO()
        try:
            for c in p.result:
                c.tosieve(target=out)
            b = "accept " + hx(out.getvalue().encode("utf-8"))
        except BaseException as e:  # noqa
            b = "printcrash %r" % (e,)
    else:
        b = a
    return [a, b, err]


ENABLER_PAIRS = [
    (b'require "comparator-i;ascii-numeric";\nif header :comparator "i;ascii-numeric" :is "X-N" "10" { stop; }\n',
     b'if header :comparator "i;ascii-numeric" :is "X-N" "10" { stop; }\n'),
    (b'require ["comparator-i;ascii-numeric", "relational"];\nif header :value "gt" :comparator "i;ascii-numeric" "X-N" "10" { stop; }',
     b'require "relational";\nif header :value "gt" :comparator "i;ascii-numeric" "X-N" "10" { stop; }'),
    (b'require "comparator-elbonia";\nif address :comparator "elbonia" :is "from" "a@b" { keep; }\n',
     b'if address :comparator "elbonia" :is "from" "a@b" { keep; }\n'),
    (b'require "comparator-i;ascii-numeric"',      # cut right after the name: the ';' never comes
     b'if envelope :comparator "i;ascii-numeric" :is "from" "1" { keep; }\n'),
    (b'require ["regex", "variables"];\nif header :regex "S" "^x" { set "a" "b"; }\n',
     b'if header :regex "S" "^x" { set "a" "b"; }\n'),
]


def check_C13(report, tier, seed, replay=None):
    from sievelib.parser import Parser
    rng = common.rng_for(seed, "C13")
    drv = common.Driver("sieve")
    pristine = Pristine()
    report.rule = ("histories of 4-12 scripts (valid, invalid, truncated mid-construct, with differing requires, using "
                   "extensions the previous script loaded) through one reused Parser and interleaved fresh Parsers, interleaved "
                   "with FiltersSet jobs; every outcome (verdict, error text, tree, serialisation) is compared with the outcome of "
                   "the same call in a pristine interpreter (forked from a process that never parsed anything) and with the "
                   "stateless model; plus the generated inventory of parser/lexer/command state (translator -> Coq obligation)")
    try:
        import factory_checks
        factory_jobs = factory_checks.c13_jobs
    except Exception:
        factory_jobs = None
    import factory_impl as FI
    n = 60 if tier == "quick" else 1500
    for h in range(n):
        reused = Parser()
        hist = []
        kept = []          # (parser object, text) of accepted parses by parsers that are not used again
        live = factory_checks.C13LiveSet() if (factory_jobs is not None and h % 2 == 0) else None
        pending = None
        for k in range(rng.randrange(4, 13)):
            toks, needs = G.gen_script(rng, avoid_optpos=(k % 3 != 0), ncmds=rng.randrange(1, 4))
            r = rng.random()
            # a script that requires a capability-like name (comparator-..., an unknown extension) and uses what that
            # name could enable, followed by a script that uses it WITHOUT the require: whatever the first one did to the
            # definitions must not reach the second (both are compared with the pristine interpreter as every script)
            if pending is None and rng.random() < 0.12:
                pending = rng.choice(ENABLER_PAIRS)
                r = -1.0
            elif pending is not None:
                r = -2.0
            if r == -1.0:
                text = pending[0]
            elif r == -2.0:
                text = pending[1]
                pending = None
            elif r < 0.25:
                # drop the require: only valid if state leaks from the previous script
                body = [t for t in toks]
                if body and body[0] == ("id", "require"):
                    idx = body.index((";", ";")) + 1
                    body = body[idx:]
                text = G.render(body)
            elif r < 0.45:
                text = G.render(toks)
                text = text[:rng.randrange(0, len(text) + 1)]
            elif r < 0.6:
                mts = G.mutants(rng, toks, 1)
                text = G.render(mts[0][2]) if mts else G.render(toks)
            else:
                text = G.render(toks)
            # marker comments before the first command, comments left pending at the end, scripts cut right
            # after their header: whatever a parse leaves behind must not reach the next one
            c = rng.random()
            if c < 0.35:
                text = ("# Filter: f%d\n# Description: d %d\n" % (k, h)).encode() + text
            if 0.25 < c < 0.5:
                text = text + ("\n# trailing %d" % k).encode() + rng.choice([b"", b"\n"])
            if 0.3 < c < 0.4:
                text = text[:rng.randrange(0, 40)]
            fresh = rng.random() >= 0.7
            parser = Parser() if fresh else reused
            got = observed(parser, text)
            want = pristine.ask("P " + hx(text))
            mod = drv.ask("parse " + hx(text))
            hist.append(text)
            report.case((h, k, text), k > 0, {"history_index": k, "script": text.decode("utf-8", "replace")[:120],
                                             "reused_parser": parser is reused, "outcome": got[0][:60]})
            report.count("outcome:" + verdict_of(got[0]))
            if mod != got[0]:
                report.broke("correspondence C13 (stateless model vs parser inside a history)",
                             "history=%r impl=%s model=%s" % (hist, got[0][:160], mod[:160]), {"history": [hx(x) for x in hist]})
            if got != want:
                report.violation("outcome depends on history: after %d earlier scripts %r gives %r, a pristine interpreter gives %r"
                                 % (k, text, [g[:120] for g in got], [w[:120] for w in want]),
                                 {"property": "C13", "history": [hx(x) for x in hist]})
                break
            if fresh and got[0].startswith("accept"):
                kept.append((parser, text, k))
            if kept and rng.random() < 0.35:
                # load a filter set from an EARLIER accepted parse, after other parses have happened since
                pk, tk, kk = kept[rng.randrange(len(kept))]
                gl = FI.load_summary(pk)
                wl = pristine.ask("L " + hx(tk))
                report.case((h, k, "load", tk), k > kk)
                report.count("loads-after-%s-later-parses" % ("0" if k == kk else "some"))
                if gl != wl:
                    report.violation("FiltersSet.from_parser_result depends on what was parsed in between: script %r parsed at step %d, "
                                     "loaded after step %d gives %r, loading it at once in a pristine interpreter gives %r"
                                     % (tk, kk, k, gl, wl), {"property": "C13", "history": [hx(x) for x in hist], "loaded": hx(tk)})
                    break
            if factory_jobs is not None and rng.random() < 0.4:
                factory_jobs(report, rng, pristine, hist)
            if live is not None and rng.random() < 0.5:
                live.step(rng)
        if live is not None:
            live.finish(report, pristine, hist)
    pristine.close()
    drv.close()


# ------------------------------------------------------------------ C20

PTYPES = [("string", "s"), ("number", "n"), ("stringlist", "sl"), (["string", "stringlist"], "sl"), (["string"], "s"),
          (["number"], "n")]
RTYPES = [(["string"], "s"), (["number"], "n"), (["string", "stringlist"], "sl")]


def gen_definition(rng, idx):
    """An args_definition of the documented shape (README / test suite): 0-4 optional tag slots, with or without a
    typed parameter (optionally restricted to a value set or valid only for some of the slot's tags), then 1-3
    required arguments; action or test; with or without an extension."""
    d = {"cls": "Xc%dCommand" % idx, "ident": "xc%d" % idx, "kind": rng.choice(["action", "test"]),
         "ext": rng.choice([None, None, "xext%d" % idx]), "args": []}
    for s in range(rng.randrange(0, 5)):
        tags = [":t%d%s" % (s, x) for x in rng.sample("abc", rng.randrange(1, 3))]
        a = {"name": "opt%d" % s, "type": ["tag"], "values": tags, "required": False}
        if rng.random() < 0.3:
            a["write_tag"] = True
        if rng.random() < 0.6:
            pt, sem = rng.choice(PTYPES)
            ex = {"type": pt}
            if sem == "s" and rng.random() < 0.4:
                ex["values"] = ['"v1"', '"v2"']
            if len(tags) > 1 and rng.random() < 0.5:
                ex["valid_for"] = [tags[0]]
            if rng.random() < 0.2:
                ex["required"] = False
            a["extra_arg"] = ex
            a["_sem"] = sem
        d["args"].append(a)
    for r in range(rng.randrange(1, 4)):
        rt, sem = rng.choice(RTYPES)
        d["args"].append({"name": "req%d" % r, "type": rt, "required": True, "_sem": sem})
    return d


def register(d):
    from sievelib import commands
    base = commands.ActionCommand if d["kind"] == "action" else commands.TestCommand
    args = [{k: v for k, v in a.items() if not k.startswith("_")} for a in d["args"]]
    attrs = {"args_definition": args}
    if d["ext"]:
        attrs["extension"] = d["ext"]
    cls = type(d["cls"], (base,), attrs)
    commands.add_commands(cls)
    return cls


def def_line(d):
    """Serialise for the sieve driver (see ocaml/sieve_driver.ml parse_def)."""
    def lst(v):
        return "+".join(hx(x.encode()) for x in v) if v else "-"
    args = []
    for a in d["args"]:
        ex = "-"
        if "extra_arg" in a:
            e = a["extra_arg"]
            t = e["type"]
            et = ("S" + hx(t.encode())) if isinstance(t, str) else ("L" + "+".join(t))
            ex = "%s^%s^%s" % (et, lst(e.get("values")) if "values" in e else "-", lst(e.get("valid_for")) if "valid_for" in e else "-")
        args.append("~".join([hx(a["name"].encode()), "+".join(a["type"]), "1" if a.get("required") else "0",
                              lst(a.get("values")) if "values" in a else "-", "-", "-", ex]))
    return "def %s %s %s 0 0 0 - %s - %s" % (hx(d["ident"].encode()), hx(d["ident"].encode()), d["kind"],
                                             hx(d["ext"].encode()) if d["ext"] else "-", ";".join(args) if args else "-")


def val_tokens(rng, sem, values=None):
    if values:
        return [("str", rng.choice(values))]
    if sem == "n":
        return [("num", rng.choice(["1", "20", "3K"]))]
    if sem == "s":
        return [("str", rng.choice(['"a"', '"b c"', '"é"']))]
    return G.gen_string(rng, "sl")


def wrong_val_tokens(rng, sem):
    if sem == "n":
        return [("str", '"notnumber"')]
    if sem == "s":
        return rng.choice([[("num", "5")], [("[", "["), ("str", '"x"'), ("]", "]")]])
    return [("num", "5")]


def uses_of(rng, d, maxn):
    """(tokens of the command's arguments, expected 'accept'/'reject', reason, expected maps) enumerated from the definition."""
    opts = [a for a in d["args"] if not a.get("required")]
    reqs = [a for a in d["args"] if a.get("required")]
    out = []
    subsets = list(itertools.chain.from_iterable(itertools.combinations(range(len(opts)), k) for k in range(len(opts) + 1)))
    rng.shuffle(subsets)
    for sub in subsets[:maxn]:
        order = list(sub)
        rng.shuffle(order)
        toks, amap, emap = [], {}, {}
        for s in order:
            a = opts[s]
            tag = rng.choice(a["values"])
            shown = tag.upper() if rng.random() < 0.2 else tag
            toks.append(("tag", shown))
            amap[a["name"]] = shown
            if "extra_arg" in a and ("valid_for" not in a["extra_arg"] or tag in a["extra_arg"]["valid_for"]):
                pv = val_tokens(rng, a["_sem"], a["extra_arg"].get("values"))
                toks += pv
                emap[a["name"]] = pv
        rtoks = []
        for a in reqs:
            pv = val_tokens(rng, a["_sem"])
            rtoks += pv
            amap[a["name"]] = pv
        out.append((toks + rtoks, "accept", "valid use", amap, emap))
        # single-edit invalid variants
        v = rng.random()
        if v < 0.2:
            out.append((toks + rtoks + [("str", '"surplus"')], "reject", "surplus argument", None, None))
        elif v < 0.4:
            out.append(([("tag", ":nosuchtag")] + toks + rtoks, "reject", "tag the command does not take", None, None))
        elif v < 0.6 and reqs:
            bad = []
            k = rng.randrange(len(reqs))
            for j, a in enumerate(reqs):
                bad += wrong_val_tokens(rng, a["_sem"]) if j == k else val_tokens(rng, a["_sem"])
            if not (reqs[k]["_sem"] == "s" and bad and False):
                out.append((toks + bad, "reject", "ill-typed required argument", None, None))
        elif v < 0.8 and order:
            # wrong parameter for a tag that takes one
            cands = [s for s in order if "extra_arg" in opts[s]]
            if cands:
                s = rng.choice(cands)
                a = opts[s]
                tag = (a["extra_arg"].get("valid_for") or a["values"])[0]
                if "values" in a["extra_arg"]:
                    param = [("str", '"notallowed"')]
                    why = "parameter outside the value set"
                else:
                    param = wrong_val_tokens(rng, a["_sem"])
                    why = "ill-typed tag parameter"
                # a list where a number/string is expected etc.; skip combinations that are legal for the required part
                if not (a["_sem"] == "sl"):
                    out.append(([("tag", tag)] + param + rtoks, "reject", why, None, None))
        elif rtoks and reqs:
            # required arguments before the tags
            if toks:
                out.append((rtoks + toks, "reject", "tag after the positional arguments", None, None))
    return out


def canon_expected(v):
    """expected value projection from generated tokens: string token text or list of item texts."""
    if isinstance(v, str):
        return ("s", v)
    if len(v) == 1:
        return ("s", v[0][1])
    return ("l", tuple(t[1] for t in v if t[0] == "str"))


def check_C20(report, tier, seed, replay=None):
    from sievelib import commands
    rng = common.rng_for(seed, "C20")
    drv = common.Driver("sieve")
    report.rule = ("argument definitions from a generator of the documented shape (0-4 optional tag slots, with/without a "
                   "parameter of type string/number/stringlist written as str or list, optionally restricted to a value set or "
                   "valid_for a subset of the slot's tags, then 1-3 required arguments; action or test; with or without an "
                   "extension), each registered with add_commands in the real library and passed to the model; for each: uses "
                   "enumerated from the definition (tag subsets in random orders, parameter forms, upper-case tags) plus "
                   "single-edit invalid variants, missing require, unregistered name; verdict, tree (arguments under the "
                   "defined names) and re-parsed serialisation; non-trivial = definition has at least one optional slot")
    ndefs = 40 if tier == "quick" else 600
    for idx in range(ndefs):
        d = gen_definition(rng, idx)
        if idx >= 3 and rng.random() < 0.3:
            # register again under a name that was already registered AND used, with a different definition:
            # add_commands replaces the class, so the new definition alone decides
            old = rng.randrange(0, idx)
            d["cls"], d["ident"] = "Xc%dCommand" % old, "xc%d" % old
            if d["ext"]:
                d["ext"] = "xext%d" % old
            report.count("re-registered")
        register(d)
        drv.ask(def_line(d))
        nopts = sum(1 for a in d["args"] if not a.get("required"))
        for argtoks, want, why, amap, emap in uses_of(rng, d, 12 if tier == "quick" else 30):
            pre = G.require_tokens(rng, {d["ext"]}) if d["ext"] else []
            variants = [("normal", pre)]
            if d["ext"] and want == "accept" and rng.random() < 0.3:
                variants.append(("norequire", []))
            for vname, pre_t in variants:
                if d["kind"] == "action":
                    toks = pre_t + [("id", d["ident"])] + argtoks + [(";", ";")]
                else:
                    toks = pre_t + [("id", "if"), ("id", d["ident"])] + argtoks + [("{", "{"), ("}", "}")]
                text = G.render(toks)
                impl, mod, p, detail = both(drv, text)
                expect = want if vname == "normal" else "reject"
                report.case((idx, text), nopts > 0, {"definition": {k: v for k, v in d.items() if k != "args"},
                                                    "nargs": len(d["args"]), "use": text.decode("utf-8", "replace")[:160],
                                                    "expected": expect, "why": why if vname == "normal" else "extension not required"})
                report.count("expected:" + expect)
                report.count("why:" + (why if vname == "normal" else "extension not required"))
                if impl != mod:
                    report.broke("correspondence C20 (registered definition: model vs parser)",
                                 "def=%r use=%r impl=%s model=%s" % (d, text, impl[:200], mod[:200]), {"definition": repr(d), "script": hx(text)})
                desc = {"property": "C20", "definition": repr(d), "script": hx(text), "text": text.decode("utf-8", "replace")}
                vi = verdict_of(impl)
                if vi != expect:
                    report.violation("use of registered command: parser says %s, definition says %s (%s): %r" % (vi, expect, why, text), desc)
                    continue
                if vi == "accept":
                    node = p.result[-1] if d["kind"] == "action" else p.result[-1].arguments["test"]
                    got_a = {k: (("s", v) if isinstance(v, str) else ("l", tuple(v))) for k, v in node.arguments.items()}
                    got_e = {k: (("s", v) if isinstance(v, str) else ("l", tuple(v))) for k, v in node.extra_arguments.items()}
                    exp_a = {k: canon_expected(v) for k, v in amap.items()}
                    exp_e = {k: canon_expected(v) for k, v in emap.items()}
                    if got_a != exp_a or got_e != exp_e or node.name != d["ident"]:
                        report.violation("arguments are not recorded under the defined names: expected %r / %r, tree has %r / %r for %r"
                                         % (exp_a, exp_e, got_a, got_e, text), desc)
                        continue
                    pr, _, _ = I.run_parser(text, "print")
                    if not pr.startswith("accept"):
                        report.violation("tosieve failed for a registered command: %r" % text, desc)
                        continue
                    out = unhx(pr.split(" ", 1)[1])
                    t1, _, _ = I.run_parser(text, "sorted")
                    t2, _, d2 = I.run_parser(out, "sorted")
                    if t1 != t2:
                        report.violation("serialisation of a registered command does not re-parse to the same tree: %r -> %r (%s)"
                                         % (text, out, d2), desc)
        # unregistered names remain unknown
        text = ("xc%dz \"a\";" % idx).encode()
        impl, mod, p, _ = both(drv, text)
        if impl != mod:
            report.broke("correspondence C20 (unregistered name)", "impl=%s model=%s" % (impl, mod), {"script": hx(text)})
        if not impl.startswith("reject UnknownCommand"):
            report.violation("unregistered name is not unknown: %r -> %s" % (text, impl), {"property": "C20", "script": hx(text)})
    drv.close()
