"""Shared machinery of the checks: build, drivers, evidence, verdicts.

Every check is `check.py <Cxx> [--tier quick|thorough]`; this module holds what they share.
The implementation under test is always imported from /repo's working tree.
"""
import fcntl
import hashlib
import json
import os
import random
import re
import subprocess
import sys
import time

VERIF = os.path.dirname(os.path.dirname(os.path.abspath(__file__)))
REPO = os.environ.get("SIEVELIB_REPO", "/repo")
COQ = os.path.join(VERIF, "coq")
OCAML = os.path.join(VERIF, "ocaml")
BUILD = os.path.join(OCAML, "_build")
EVIDENCE = os.path.join(VERIF, "evidence")
REPLAYS = os.path.join(VERIF, "replays")
LOGS = os.path.join(VERIF, "logs")
PY = "/venv/bin/python"

if REPO not in sys.path:
    sys.path.insert(0, REPO)

COQ_TRUSTED_BASE = [
    "Coq 8.16.1 kernel (coqc, full .vo build; vm_compute used for finite obligations and witnesses; no native_compute)",
    "axioms: none declared by the development; Print Assumptions output per theorem is in coverage.assumptions_report",
    "translators tools/gen_tables.py, tools/gen_static.py, tools/gen_state.py, tools/gen_factory.py (regenerate coq/gen/*.v from /repo on every run)",
    "extraction with ExtrOcamlBasic only (bool, option, unit, list, prod, sumbool, sumor mapped to OCaml's; andb/orb inlined); no Extract Constant / Extract Inductive of our own; OCaml 4.13.1; ocaml/*_driver.ml",
    "correspondence check (differential testing of the hand-written model parts against CPython running /repo)",
    "modelled, not verified: CPython builtins and re engine, socket/ssl behaviour (recv returns a non-empty prefix or times out), reference server standing for real servers",
]


def hx(b):
    if b is None:
        return "-"
    return "x" + bytes(b).hex()


def unhx(t):
    if t == "-":
        return None
    assert t.startswith("x"), t
    return bytes.fromhex(t[1:])


class BuildError(Exception):
    def __init__(self, what, log):
        Exception.__init__(self, what)
        self.what = what
        self.log = log


def _run(cmd, cwd, timeout, env=None):
    p = subprocess.run(cmd, cwd=cwd, stdout=subprocess.PIPE, stderr=subprocess.STDOUT,
                       timeout=timeout, env=env, text=True, errors="replace")
    return p.returncode, p.stdout


class Lock:
    def __enter__(self):
        self.f = open(os.path.join(VERIF, ".build.lock"), "w")
        fcntl.flock(self.f, fcntl.LOCK_EX)
        return self

    def __exit__(self, *a):
        fcntl.flock(self.f, fcntl.LOCK_UN)
        self.f.close()


def sync_generated():
    """Run the translators on the current working tree (only rewrites changed files)."""
    out = []
    for tool in ("gen_tables.py", "gen_static.py", "gen_state.py", "gen_factory.py"):
        path = os.path.join(VERIF, "tools", tool)
        if not os.path.exists(path):
            continue
        env = dict(os.environ, PYTHONPATH=REPO, PYTHONHASHSEED="0", PYTHONDONTWRITEBYTECODE="1")
        rc, log = _run([PY, path], VERIF, 300, env)
        out.append((tool, rc, log))
        if rc != 0:
            raise BuildError("translator %s failed closed" % tool, log)
    return out


def coq_make(targets, timeout=1500, jobs=16):
    """Full .vo build of the given targets (paths relative to coq/). Returns the log."""
    if not os.path.exists(os.path.join(COQ, "Makefile")):
        rc, log = _run(["coq_makefile", "-f", "_CoqProject", "-o", "Makefile"], COQ, 60)
        if rc != 0:
            raise BuildError("coq_makefile failed", log)
    rc, log = _run(["timeout", str(timeout), "make", "-j%d" % jobs] + list(targets), COQ, timeout + 30)
    if rc != 0:
        raise BuildError("coq build failed: %s" % " ".join(targets), log)
    return log


def build_driver(name):
    """Compile ocaml/<name>_driver.ml against coq/extract/<name>_model.ml if out of date."""
    os.makedirs(BUILD, exist_ok=True)
    srcs = [os.path.join(COQ, "extract", name + "_model.ml"),
            os.path.join(COQ, "extract", name + "_model.mli"),
            os.path.join(OCAML, name + "_driver.ml")]
    exe = os.path.join(BUILD, name + "_driver")
    h = hashlib.sha256()
    for s in srcs:
        h.update(open(s, "rb").read())
    stamp = os.path.join(BUILD, name + ".stamp")
    if os.path.exists(exe) and os.path.exists(stamp) and open(stamp).read() == h.hexdigest():
        return exe
    for s in srcs:
        subprocess.check_call(["cp", s, BUILD])
    rc, log = _run(["ocamlfind", "ocamlopt", "-w", "-a", name + "_model.mli", name + "_model.ml",
                    name + "_driver.ml", "-o", name + "_driver"], BUILD, 600)
    if rc != 0:
        raise BuildError("ocaml build of %s driver failed" % name, log)
    open(stamp, "w").write(h.hexdigest())
    return exe


FORBIDDEN = re.compile(r"\b(Admitted|admit|Axiom|Parameter|Conjecture|Unset Guard Checking|bypass_check|Admit Obligations)\b")


def scan_sources():
    """No Admitted/admit/Axiom/... anywhere in the development (comments excluded)."""
    bad = []
    for root, _, files in os.walk(COQ):
        for f in files:
            if not f.endswith(".v"):
                continue
            p = os.path.join(root, f)
            text = open(p, errors="replace").read()
            text = re.sub(r"\(\*.*?\*\)", "", text, flags=re.S)
            for m in FORBIDDEN.finditer(text):
                bad.append("%s: %s" % (os.path.relpath(p, COQ), m.group(0)))
    return bad


def prop_obligations(pid):
    """Theorems stated in props/<pid>.v and their Print Assumptions output (from a fresh coqc)."""
    src = os.path.join(COQ, "props", pid + ".v")
    text = open(src).read()
    names = re.findall(r"^(?:Theorem|Lemma|Example|Corollary)\s+([A-Za-z0-9_']+)", text, flags=re.M)
    rc, log = _run(["timeout", "900", "coqc", "-Q", ".", "SV", "props/%s.v" % pid], COQ, 930)
    if rc != 0:
        raise BuildError("props/%s.v does not check" % pid, log)
    report = {}
    # coqc prints, for each Print Assumptions, either "Closed under the global context" or "Axioms:" + list
    chunks = re.split(r"(?=Closed under the global context|Axioms:)", log)
    outs = [c.strip() for c in chunks if c.startswith("Closed") or c.startswith("Axioms:")]
    printed = re.findall(r"^Print Assumptions\s+([A-Za-z0-9_']+)", text, flags=re.M)
    for n, o in zip(printed, outs):
        report[n] = " ".join(o.split())
    return names, report


class Driver:
    def __init__(self, name):
        self.exe = os.path.join(BUILD, name + "_driver")
        self.p = subprocess.Popen([self.exe], stdin=subprocess.PIPE, stdout=subprocess.PIPE,
                                  text=True, bufsize=1)

    def ask(self, line):
        self.p.stdin.write(line + "\n")
        self.p.stdin.flush()
        out = self.p.stdout.readline()
        if not out:
            raise RuntimeError("driver died on: %s" % line[:200])
        out = out.rstrip("\n")
        if out.startswith("ERR"):
            raise RuntimeError("driver error %s on: %s" % (out, line[:200]))
        return out

    def close(self):
        try:
            self.p.stdin.close()
            self.p.wait(timeout=5)
        except Exception:
            self.p.kill()


def load_known_findings(pid):
    path = os.path.join(VERIF, "known_findings.json")
    if not os.path.exists(path):
        return []
    data = json.load(open(path))
    return [e for e in data.get("findings", []) if e.get("property") == pid and e.get("status") == "open"]


class Report:
    """Collects what one check run saw and turns it into stdout lines, evidence and exit code."""

    def __init__(self, pid, tier, seed, level):
        self.pid, self.tier, self.seed, self.level = pid, tier, seed, level
        self.t0 = time.time()
        self.violations = []          # (kind, description, replay dict)
        self.known_hits = {}          # finding id -> count
        self.known = {e["id"]: e for e in load_known_findings(pid)}
        self.broken = []              # obligations / correspondences that no longer check
        self.evaluations = 0
        self.nontrivial = set()
        self.samples = []
        self.dist = {}
        self.obligations = []
        self.discharged = []
        self.assumptions = {}
        self.extra = {}
        self.rule = ""

    def count(self, key, n=1):
        self.dist[key] = self.dist.get(key, 0) + n

    def case(self, key, nontrivial=True, sample=None):
        self.evaluations += 1
        if nontrivial:
            self.nontrivial.add(hashlib.sha1(repr(key).encode()).hexdigest()[:16])
        if sample is not None and len(self.samples) < 8:
            self.samples.append(sample)

    def known_hit(self, fid):
        self.known_hits[fid] = self.known_hits.get(fid, 0) + 1

    def violation(self, desc, replay):
        """A failing input of the property on the implementation."""
        if len(self.violations) < 50:
            self.violations.append(("input", desc, replay))

    def broke(self, what, detail, replay=None):
        """A proof obligation or a correspondence that no longer checks."""
        if len(self.broken) < 50:
            self.broken.append((what, detail, replay))

    def finish(self):
        os.makedirs(EVIDENCE, exist_ok=True)
        os.makedirs(REPLAYS, exist_ok=True)
        lines = []
        for fid, n in sorted(self.known_hits.items()):
            e = self.known.get(fid, {})
            lines.append("KNOWN-FINDING: property=%s %s: %s (%d case(s) this run)" % (
                self.pid, fid, e.get("what", ""), n))
        nviol = 0
        if self.violations:
            for kind, desc, replay in self.violations[:5]:
                nviol += 1
                path = self._write_replay(dict(replay, description=desc, kind="failing-input"))
                lines.append("VIOLATION property=%s replay=%s" % (self.pid, path))
            if self.broken:
                lines.append("NOTE: also no longer checking: %s" % "; ".join(b[0] for b in self.broken[:5]))
        elif self.broken:
            nviol += 1
            path = self._write_replay({
                "kind": "broken-obligation-or-correspondence",
                "no_longer_checks": [{"what": w, "detail": d, "case": r} for (w, d, r) in self.broken],
                "description": "no failing input of the property was found by the search; the listed "
                               "theorems / correspondence projections no longer check against /repo",
            })
            lines.append("VIOLATION property=%s replay=%s no-failing-input-found" % (self.pid, path))
        wall = time.time() - self.t0
        cov = {
            "evaluations": max(self.evaluations, 0),
            "distinct_nontrivial": len(self.nontrivial),
            "rule": self.rule,
            "samples": self.samples[:8] if self.samples else ["(none)"],
            "obligations": len(self.obligations),
            "discharged": len(self.discharged),
            "obligation_names": self.obligations,
            "checker_cmd": "make -C coq (coqc 8.16.1, full .vo) && coqc props/%s.v (Print Assumptions)" % self.pid,
            "trusted_base": COQ_TRUSTED_BASE,
            "assumptions_report": self.assumptions,
            "distribution": self.dist,
            "known_findings_seen": self.known_hits,
            "broken": [b[0] for b in self.broken],
        }
        cov.update(self.extra)
        ev = {
            "property_id": self.pid, "tier": self.tier, "seed": self.seed, "level": self.level,
            "coverage": cov,
            "assumptions": COQ_TRUSTED_BASE,
            "wall_s": round(wall, 2), "violations": nviol,
        }
        with open(os.path.join(EVIDENCE, self.pid + ".json"), "w") as f:
            json.dump(ev, f, indent=1, sort_keys=True)
        for l in lines:
            print(l)
        print("%s %s: %d evaluations, %d distinct non-trivial, %d/%d obligations, %d violation(s), %.1fs" % (
            self.pid, self.tier, self.evaluations, len(self.nontrivial), len(self.discharged),
            len(self.obligations), nviol, wall))
        return 1 if nviol else 0

    def _write_replay(self, obj):
        blob = json.dumps(obj, sort_keys=True, default=repr)
        name = "%s-%s.json" % (self.pid, hashlib.sha1(blob.encode()).hexdigest()[:12])
        path = os.path.join(REPLAYS, name)
        with open(path, "w") as f:
            f.write(json.dumps(obj, indent=1, sort_keys=True, default=repr))
        return path


def _name_at(relpath, line):
    """Name of the theorem / definition enclosing a line of a Coq file (for readable reports)."""
    try:
        lines = open(os.path.join(COQ, relpath), errors="replace").read().split("\n")[:int(line)]
    except OSError:
        return "?"
    for l in reversed(lines):
        m = re.match(r"\s*(?:Theorem|Lemma|Example|Corollary|Definition|Fixpoint)\s+([A-Za-z0-9_']+)", l)
        if m:
            return m.group(1)
    return "?"


def _where(log):
    m = re.findall(r"File \"\./([^\"]+)\", line (\d+)", log)
    return ", ".join("%s:%s (%s)" % (f, l, _name_at(f, l)) for f, l in m[:3])


def prepare(report, pid, coq_targets, drivers):
    """sync + build + obligations for one property. Broken steps are recorded, not raised."""
    with Lock():
        try:
            sync_generated()
        except BuildError as e:
            report.broke("translator: " + e.what, e.log[-3000:])
        try:
            coq_make(list(coq_targets) + ["props/%s.vo" % pid])
        except BuildError as e:
            # find which file failed
            report.broke("coq build: %s" % (_where(e.log) or e.what), e.log[-4000:])
        ok_drivers = True
        for d in drivers:
            try:
                coq_make(["extract/Extract%s.vo" % d.upper()])
                build_driver(d)
            except BuildError as e:
                ok_drivers = False
                report.broke("driver %s: %s" % (d, e.what), e.log[-3000:])
        bad = scan_sources()
        if bad:
            report.broke("forbidden vernacular in sources", "; ".join(bad))
        try:
            names, assum = prop_obligations(pid)
            report.obligations = names
            report.discharged = list(names)
            report.assumptions = assum
            for n, a in assum.items():
                if not a.startswith("Closed under the global context"):
                    report.extra.setdefault("axioms_used", {})[n] = a
        except BuildError as e:
            src = os.path.join(COQ, "props", pid + ".v")
            names = re.findall(r"^(?:Theorem|Lemma|Example|Corollary)\s+([A-Za-z0-9_']+)",
                               open(src).read(), flags=re.M) if os.path.exists(src) else []
            report.obligations = names
            report.discharged = []
            report.broke("theorems of props/%s.v (%s)" % (pid, _where(e.log)), e.log[-4000:])
    return ok_drivers


def rng_for(seed, tag):
    return random.Random("%s/%s" % (seed, tag))
