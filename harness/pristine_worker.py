"""Pristine outcomes for C13: this process never parses anything itself; every job runs in a forked
child, so each outcome is what a fresh interpreter would give.  Jobs on stdin, one per line:
  P <hex script>            -> canonical parse outcome + printed text
  F <json list of ops>      -> outcome of a FiltersSet job (see factory_impl.run_job)
  L <hex script>            -> parse, then FiltersSet.from_parser_result at once (factory_impl.load_summary)
"""
import json
import os
import sys

sys.path.insert(0, os.path.dirname(os.path.abspath(__file__)))


def handle(line):
    import sieve_impl
    kind, payload = line.split(" ", 1)
    if kind == "P":
        text = bytes.fromhex(payload[1:])
        a, p, d = sieve_impl.run_parser(text, "tree")
        b, _, _ = sieve_impl.run_parser(text, "print")
        err = p.error if (p is not None and a.startswith("reject")) else ""
        return json.dumps([a, b, err])
    if kind == "L":
        import factory_impl
        from sievelib.parser import Parser
        text = bytes.fromhex(payload[1:])
        p = Parser()
        if not p.parse(text):
            return json.dumps(["rejected"])
        return json.dumps(factory_impl.load_summary(p))
    if kind == "F":
        import factory_impl
        return json.dumps(factory_impl.run_job(json.loads(payload)))
    return json.dumps(["bad job"])


def main():
    import sievelib.parser  # noqa: imported but unused before the fork
    import sievelib.factory  # noqa
    for line in sys.stdin:
        line = line.rstrip("\n")
        if not line:
            continue
        r, w = os.pipe()
        pid = os.fork()
        if pid == 0:
            os.close(r)
            try:
                out = handle(line)
            except BaseException as e:  # noqa
                out = json.dumps(["worker-exception", repr(e)])
            os.write(w, out.encode())
            os._exit(0)
        os.close(w)
        chunks = []
        while True:
            c = os.read(r, 65536)
            if not c:
                break
            chunks.append(c)
        os.close(r)
        os.waitpid(pid, 0)
        sys.stdout.write(b"".join(chunks).decode() + "\n")
        sys.stdout.flush()


if __name__ == "__main__":
    main()
