"""Run the real sievelib.managesieve.Client against a fake socket.

The peer behind the fake socket is either a canned list of chunks or the extracted Coq
reference server (through the driver).  Only public attributes of the client are read.
"""
import socket
import ssl
from unittest import mock

from common import hx, unhx


class Net:
    """The fake network: pending chunks, write log, segmentation policy, peer."""

    def __init__(self, driver=None, segment=None, refuse_connect=False, tls_fails=False):
        self.driver = driver
        self.segment = segment or (lambda data, n: [data] if data else [])
        self.refuse_connect = refuse_connect
        self.tls_fails = tls_fails
        self.queue = []
        self.log = []          # ("C", conn) | ("T", conn) | ("S", conn, tls, bytes)
        self.conn = 0
        self.tls = False
        self.batch = 0
        self.recv_calls = 0

    def enqueue(self, data):
        chunks = [c for c in self.segment(data, self.batch) if c]
        assert b"".join(chunks) == data
        self.batch += 1
        self.queue.extend(chunks)

    # --- socket side
    def connect(self):
        if self.refuse_connect:
            raise socket.error("refused")
        self.conn += 1
        self.tls = False
        self.queue = []
        self.log.append(("C", self.conn))
        if self.driver is not None:
            g = self.driver.ask("srv_connect")
            if g != "-":
                self.enqueue(unhx(g))
        return FakeSocket(self)

    def wrap(self, sock):
        if self.tls_fails:
            raise ssl.SSLError("handshake failure")
        self.tls = True
        self.queue = []          # plaintext in flight is not part of the TLS stream
        self.log.append(("T", self.conn))
        if self.driver is not None:
            g = self.driver.ask("srv_tls")
            if g != "-":
                self.enqueue(unhx(g))
        return FakeSocket(self)

    def send(self, data):
        if getattr(self, "send_fault", None) is not None:
            exc, self.send_fault = self.send_fault, None      # the write fails: nothing reaches the peer
            self.log.append(("X", self.conn))
            raise exc
        self.log.append(("S", self.conn, self.tls, bytes(data)))
        if self.driver is not None:
            r = unhx(self.driver.ask("srv_feed " + hx(data)))
            if r:
                self.enqueue(r)

    def recv(self, n):
        self.recv_calls += 1
        if self.recv_calls > 200000:
            raise RuntimeError("recv loop")
        if not self.queue:
            raise socket.timeout("timed out")
        c = self.queue[0]
        if len(c) <= n:
            self.queue.pop(0)
            return c
        self.queue[0] = c[n:]
        return c[:n]

    def unread(self):
        return b"".join(self.queue)

    def log_str(self):
        out = []
        for e in self.log:
            if e[0] == "S":
                out.append("S%d:%d:%s" % (e[1], 1 if e[2] else 0, hx(e[3])))
            elif e[0] == "X":
                continue
            else:
                out.append("%s%d" % (e[0], e[1]))
        return " ".join(out) if out else "-"


class FakeSocket:
    def __init__(self, net):
        self.net = net

    def settimeout(self, t):
        pass

    def sendall(self, data):
        self.net.send(data)

    def send(self, data):
        self.net.send(data)
        return len(data)

    def recv(self, n, *a):
        return self.net.recv(n)

    def close(self):
        pass


class FakeContext:
    def __init__(self, net):
        self.net = net

    def load_cert_chain(self, *a, **k):
        pass

    def wrap_socket(self, sock, server_hostname=None, **k):
        return self.net.wrap(sock)


CURRENT = [None]
_PATCHED = [False]


def _install_patches():
    if _PATCHED[0]:
        return
    mock.patch("socket.create_connection", lambda *a, **k: CURRENT[0].connect()).start()
    mock.patch("ssl.create_default_context", lambda *a, **k: FakeContext(CURRENT[0])).start()
    _PATCHED[0] = True


class Session:
    """A real Client wired to a Net (one live session at a time)."""

    def __init__(self, net):
        from sievelib import managesieve
        self.ms = managesieve
        self.net = net
        _install_patches()
        CURRENT[0] = net
        self.client = managesieve.Client("server.example")

    def close(self):
        self.client.sock = None

    def canon(self, kind, val):
        c = self.client
        ec = c.errcode
        em = c.errmsg
        if isinstance(ec, str):
            ec = ec.encode()
        if isinstance(em, str):
            em = em.encode()
        return "%s:%s auth=%d errcode=%s errmsg=%s" % (kind, val, 1 if c.authenticated else 0, hx(ec), hx(em))

    def call(self, op):
        """op is a tuple like the driver's op tokens, with bytes (utf-8) for strings."""
        c = self.client
        name = op[0]
        s = lambda b: b.decode("utf-8", "surrogateescape")   # bytes that are not UTF-8 become lone surrogates: a str that cannot be encoded
        try:
            if name == "connect":
                _, login, pw, authz, tls, mech = op
                r = c.connect(s(login), s(pw), s(authz), starttls=bool(tls),
                              authmech=(s(mech) if mech is not None else None))
            elif name == "logout":
                r = c.logout()
            elif name == "capability":
                r = c.capability()
            elif name == "havespace":
                r = c.havespace(s(op[1]), op[2])
            elif name == "listscripts":
                r = c.listscripts()
            elif name == "getscript":
                r = c.getscript(s(op[1]))
            elif name == "putscript":
                r = c.putscript(s(op[1]), s(op[2]))
            elif name == "deletescript":
                r = c.deletescript(s(op[1]))
            elif name == "renamescript":
                r = c.renamescript(s(op[1]), s(op[2]))
            elif name == "setactive":
                r = c.setactive(s(op[1]))
            elif name == "checkscript":
                r = c.checkscript(s(op[1]))
            else:
                raise ValueError(name)
        except self.ms.Error as e:
            return self.canon("F", "Error"), str(e)
        except NotImplementedError as e:
            return self.canon("F", "NotImplementedError"), str(e)
        except (RuntimeError, RecursionError) as e:
            return self.canon("F", "Hang"), repr(e)
        except Exception as e:
            return self.canon("F", "Crash"), "%s: %s" % (type(e).__name__, e)
        return self.canon("D", self.value(r)), ""

    @staticmethod
    def value(r):
        if r is None:
            return "none"
        if r is True:
            return "true"
        if r is False:
            return "false"
        if isinstance(r, bytes):
            return "b:" + hx(r)
        if isinstance(r, str):
            return "b:" + hx(r.encode("utf-8"))
        if isinstance(r, tuple) and len(r) == 2:
            a, o = r
            return "l:%s:%s" % (hx(a.encode("utf-8")) if a is not None else "-",
                                ",".join(hx(x.encode("utf-8")) for x in o) if o else "-")
        return "other:" + repr(r)


def op_tokens(op):
    """Serialise an op tuple for the driver."""
    out = [op[0]]
    if op[0] == "connect":
        _, login, pw, authz, tls, mech = op
        out += [hx(login), hx(pw), hx(authz), "1" if tls else "0", hx(mech)]
    elif op[0] == "havespace":
        out += [hx(op[1]), str(op[2])]
    else:
        out += [hx(x) for x in op[1:]]
    return " ".join(out)


def canon_model(line):
    """Project the driver's outcome line onto what is compared (exception class only)."""
    head, rest = line.split(" ", 1)
    if head.startswith("F:"):
        e = head[2:]
        if e in ("Timeout", "Closed", "Bye", "BadMsg", "AuthReq", "ConnFail", "NoTls", "Ssl", "NoSasl"):
            head = "F:Error"
        elif e == "NotImpl":
            head = "F:NotImplementedError"
        elif e == "OutOfFuel":
            head = "F:Hang"
        else:
            head = "F:Crash"
    return head + " " + rest


GREETING = (b'"IMPLEMENTATION" "canned"\r\n"SASL" "PLAIN"\r\n')


def canned_session(chunks, version=False, authenticated=True):
    """A client that has connected (and authenticated) against canned data, then faces `chunks`."""
    net = Net()
    sess = Session(net)
    pre = GREETING + (b'"VERSION" "1.0"\r\n' if version else b"") + b"OK\r\n"
    if authenticated:
        pre += b"OK\r\n"
    else:
        pre += b"NO\r\n"
    net.segment = lambda data, n: [data] if data else []
    orig_connect = net.connect

    def connect():
        sock = orig_connect()
        net.queue = [pre]
        return sock
    net.connect = connect
    sess.client.connect("u", "p")
    net.connect = orig_connect
    net.log = []
    net.queue = [c for c in chunks]
    return sess
