"""Drive the real sievelib.factory.FiltersSet and canonicalise what it did."""
import io
import re

from common import hx


def mk_conditions_actions(cid):
    """The plain filter content number cid: recognisable in rendered text by its folder name."""
    return [("Subject", ":is", "c%d" % cid)], [("fileinto", "box%d" % cid)]


def content_str(cmd):
    """p<id> for a plain filter, w[...] for an `if false` wrapper (same format as the driver)."""
    from sievelib import commands
    if cmd is None:
        return "none"
    if isinstance(cmd, commands.IfCommand) and "test" in cmd.arguments and isinstance(cmd.arguments["test"], commands.FalseCommand):
        return "w[" + ",".join(content_str(c) for c in cmd.children) + "]"
    out = io.StringIO()
    cmd.tosieve(target=out)
    m = re.search(r'fileinto "box(\d+)"', out.getvalue())
    return "p%s" % (m.group(1) if m else "?")


def dump(fs):
    if not fs.filters:
        return "-"
    out = []
    for f in fs.filters:
        d = f.get("description")
        out.append("%s:%d:%s:%s" % (hx(f["name"].encode("utf-8")), 1 if f["enabled"] else 0, content_str(f["content"]),
                                   hx(d.encode("utf-8")) if d is not None else "-"))
    return " ".join(out)


def ret_str(r):
    from sievelib import commands
    if r is None:
        return "none"
    if r is True:
        return "true"
    if r is False:
        return "false"
    if isinstance(r, commands.Command):
        return "content:" + content_str(r)
    return "other:%r" % (r,)


def apply_op(fs, op, scratch):
    """op = tuple as the driver's tokens with str names. Returns canonical return value."""
    from sievelib import factory
    kind = op[0]
    try:
        if kind == "add":
            c, a = mk_conditions_actions(op[2])
            return ret_str(fs.addfilter(op[1], c, a))
        if kind == "update":
            c, a = mk_conditions_actions(op[3])
            return ret_str(fs.updatefilter(op[1], op[2], c, a))
        if kind == "replace":
            c, a = mk_conditions_actions(op[2])
            tmp = factory.FiltersSet("tmp")
            tmp.addfilter("x", c, a)
            return ret_str(fs.replacefilter(op[1], tmp.getfilter("x"), op[3], op[4]))
        if kind == "remove":
            return ret_str(fs.removefilter(op[1]))
        if kind == "enable":
            return ret_str(fs.enablefilter(op[1]))
        if kind == "disable":
            return ret_str(fs.disablefilter(op[1]))
        if kind == "move":
            return ret_str(fs.movefilter(op[1], op[2]))
        if kind == "get":
            return ret_str(fs.getfilter(op[1]))
        if kind == "isdisabled":
            return ret_str(fs.is_filter_disabled(op[1]))
    except factory.FilterAlreadyExists:
        return "exists"
    except IndexError:
        return "indexerror"
    except Exception as e:  # noqa
        return "crash:%s" % type(e).__name__
    raise ValueError(kind)


def op_tokens(op):
    kind = op[0]
    h = lambda s: hx(s.encode("utf-8")) if s is not None else "-"
    if kind == "add":
        return "add %s %d" % (h(op[1]), op[2])
    if kind == "update":
        return "update %s %s %d" % (h(op[1]), h(op[2]), op[3])
    if kind == "replace":
        return "replace %s %d %s %s" % (h(op[1]), op[2], h(op[3]), h(op[4]))
    if kind == "move":
        return "move %s %s" % (h(op[1]), "up" if op[2] == "up" else "down")
    return "%s %s" % (kind, h(op[1]))


def render(fs):
    out = io.StringIO()
    fs.tosieve(out)
    return out.getvalue()


def run_job(job, fs=None, finish=True):
    """A FiltersSet job for the pristine worker (C13): list of ('addfilter', name, conditions, actions) ...;
    returns [outcome per op..., rendered text].  With fs given the operations run on that (long-lived) set."""
    from sievelib import factory
    if fs is None:
        fs = factory.FiltersSet("job")
    outs = []
    for op in job:
        try:
            kind = op[0]
            if kind == "addfilter":
                conds = [tuple(c) for c in op[2]]
                acts = [tuple(a) for a in op[3]]
                outs.append(repr(fs.addfilter(op[1], conds, acts, *(op[4:5]))))
            elif kind == "disablefilter":
                outs.append(repr(fs.disablefilter(op[1])))
            elif kind == "enablefilter":
                outs.append(repr(fs.enablefilter(op[1])))
            elif kind == "updatefilter":
                conds = [tuple(c) for c in op[3]]
                acts = [tuple(a) for a in op[4]]
                outs.append(repr(fs.updatefilter(op[1], op[2], conds, acts)))
            else:
                outs.append("unknown op")
        except Exception as e:  # noqa
            outs.append("raised %s: %s" % (type(e).__name__, e))
    if not finish:
        return outs
    try:
        outs.append(render(fs))
        outs.append(repr(fs.requires))
    except Exception as e:  # noqa
        outs.append("render raised %s" % type(e).__name__)
    return outs


def load_summary(parser):
    """What FiltersSet.from_parser_result makes of an accepted parse (C13: must not depend on anything that
    happened between the parse and the load)."""
    from sievelib import factory
    try:
        fs = factory.FiltersSet("l")
        fs.from_parser_result(parser)
        return [repr([(f["name"], f["enabled"], f.get("description")) for f in fs.filters]), repr(fs.requires), render(fs)]
    except Exception as e:  # noqa
        return ["raised %s: %s" % (type(e).__name__, e)]
