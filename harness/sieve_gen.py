"""Generators for the Sieve checks: token vocabulary, exhaustive sequences, grammar-directed valid
scripts from the frozen signatures (sieve_spec.SPEC), single-edit mutants, layouts."""
import itertools

import sieve_spec as S

ALL_EXT = ["fileinto", "reject", "envelope", "body", "vacation", "vacation-seconds", "date", "variables",
           "imap4flags", "copy", "mailbox", "relational", "regex"]

T = lambda k, v: (k, v)
PUNCT = [T("[", "["), T("]", "]"), T("(", "("), T(")", ")"), T("{", "{"), T("}", "}"), T(";", ";"), T(",", ",")]
IDS = ["if", "elsif", "else", "require", "stop", "keep", "discard", "fileinto", "redirect", "reject", "vacation", "set",
       "setflag", "addflag", "removeflag", "hasflag", "header", "address", "envelope", "exists", "true", "false", "not",
       "anyof", "allof", "size", "body", "date", "currentdate", "foo", "control", "test"]
TAGS = [":is", ":contains", ":matches", ":comparator", ":count", ":value", ":regex", ":copy", ":create", ":flags", ":over",
        ":under", ":days", ":seconds", ":mime", ":zone", ":originalzone", ":content", ":raw", ":text", ":localpart",
        ":subject", ":addresses", ":bogus"]
STRS = ['"a"', '"i;octet"', '"gt"', '"fileinto"', '"b c"']
NUMS = ["10", "2K"]
ML = ["text:\nx\n.\n"]

FULL_VOCAB = ([T("id", x) for x in IDS] + [T("tag", x) for x in TAGS] + [T("str", x) for x in STRS]
              + [T("num", x) for x in NUMS] + [T("ml", x) for x in ML] + PUNCT)

SMALL_VOCAB = [T("id", "if"), T("id", "else"), T("id", "keep"), T("id", "stop"), T("id", "header"), T("id", "true"),
               T("id", "anyof"), T("id", "not"), T("id", "fileinto"), T("id", "size"), T("tag", ":is"), T("tag", ":over"),
               T("tag", ":copy"), T("str", '"a"'), T("num", "10"), T("[", "["), T("]", "]"), T("(", "("), T(")", ")"),
               T("{", "{"), T("}", "}"), T(";", ";"), T(",", ",")]

PREAMBLE = [T("id", "require"), T("[", "[")] + list(itertools.chain.from_iterable(
    ([T("str", '"%s"' % e), T(",", ",")] for e in ALL_EXT)))[:-1] + [T("]", "]"), T(";", ";")]


def render(toks, sep=" "):
    out = []
    for k, v in toks:
        out.append(v)
    text = sep.join(out)
    return text.encode("utf-8", "surrogateescape")   # lone surrogates U+DC80..DCFF stand for raw bytes 80..FF


def render_layout(rng, toks):
    """Same tokens, different layout: whitespace kinds, line endings, comments, letter case."""
    seps = [" ", "\n", "\r\n", "\t", "  ", " # c\n", " /* c */ ", "\n\n", " #\r\n", "/**/"]
    out = []
    for i, (k, v) in enumerate(toks):
        if k in ("id", "tag"):
            v = "".join(c.upper() if rng.random() < 0.3 else c for c in v)
        if k == "ml":
            if rng.random() < 0.5 and "\r" not in v:
                v = v.replace("\n", "\r\n")
            v = v.rstrip("\r\n") + rng.choice(["\n", "\r\n"])
        out.append(v)
        nxt = toks[i + 1][0] if i + 1 < len(toks) else None
        need = k in ("id", "tag", "num") and nxt in ("id", "num", "tag", "ml") or (k == "tag" and nxt == "id")
        if k == "ml":
            out.append(rng.choice(["", " ", "\n"]))
        elif need or rng.random() < 0.6:
            out.append(rng.choice(seps))
        elif k in ("id", "tag", "num") and nxt in ("str",):
            out.append(rng.choice(["", " "]))
    return "".join(out).encode("utf-8", "surrogateescape")


# only the extensions that own COMMANDS: tags and match types (copy, mailbox, imap4flags on fileinto/keep,
# relational, regex, vacation-seconds) stay unloaded, so the tag-level gates are observable
PARTIAL_EXT = ["fileinto", "reject", "envelope", "body", "vacation", "date", "variables"]
PARTIAL_PREAMBLE = [T("id", "require"), T("[", "[")] + list(itertools.chain.from_iterable(
    ([T("str", '"%s"' % e), T(",", ",")] for e in PARTIAL_EXT)))[:-1] + [T("]", "]"), T(";", ";")]


def flip_case(rng, toks, p=0.3):
    """Same tokens with random letter case in identifiers and tags (RFC 5228: case-insensitive)."""
    out = []
    for k, v in toks:
        if k in ("id", "tag"):
            v = "".join(c.upper() if rng.random() < p else c for c in v)
        out.append((k, v))
    return out


def structure_cases():
    """Deterministic enumeration of structural irregularities: every command head x every way of ending it
    (';', block, nothing, both), every test position filled with a test / nothing / a non-test / a test list,
    alone and after a leading valid or invalid if-command, with elsif/else continuations."""
    tests = [[], [T("id", "true")], [T("id", "not"), T("id", "true")], [T("id", "not")],
             [T("id", "anyof"), T("(", "("), T("id", "true"), T(")", ")")],
             [T("id", "allof"), T("(", "("), T("id", "true"), T(",", ","), T("id", "false"), T(")", ")")],
             [T("id", "anyof"), T("(", "("), T(")", ")")], [T("id", "anyof")],
             [T("id", "not"), T("id", "anyof"), T("(", "("), T("id", "true"), T(")", ")")],
             [T("id", "header"), T("tag", ":is"), T("str", '"a"'), T("str", '"b"')],
             [T("id", "header"), T("tag", ":is"), T("str", '"a"')],
             [T("id", "exists"), T("str", '"a"')], [T("id", "stop")], [T("id", "size"), T("tag", ":over"), T("num", "10")],
             [T("id", "true"), T("id", "true")], [T("(", "("), T("id", "true"), T(")", ")")]]
    heads = [[T("id", "stop")], [T("id", "keep")], [T("id", "discard")], [T("id", "redirect"), T("str", '"a"')],
             [T("id", "redirect")], [T("id", "true")], [T("id", "foo")], [T("id", "else")],
             [T("id", "require"), T("str", '"fileinto"')], [T("id", "set"), T("str", '"a"'), T("str", '"b"')]]
    for t in tests:
        heads.append([T("id", "if")] + t)
        heads.append([T("id", "elsif")] + t)
    heads += [[T("id", "else")] + t for t in tests[1:5]]
    heads += [[T("id", "stop")] + t for t in tests[1:5]]
    blk = [T("{", "{"), T("}", "}")]
    blk1 = [T("{", "{"), T("id", "stop"), T(";", ";"), T("}", "}")]
    semi = [T(";", ";")]
    terms = [semi, blk, blk1, [], semi + semi, blk + semi, semi + blk, [T("{", "{")], [T("}", "}")],
             [T("{", "{"), T("id", "stop"), T("}", "}")], [T("{", "{"), T(";", ";"), T("}", "}")]]
    leads = [[], [T("id", "if"), T("id", "true")] + blk1, [T("id", "if"), T("id", "true")] + blk1 + [T("id", "elsif"), T("id", "false")] + blk,
             [T("id", "if"), T("id", "true")] + blk + [T("id", "else")] + blk, [T("id", "stop"), T(";", ";")],
             [T("id", "if"), T("id", "true"), T("{", "{")]]
    tails = [[], [T("id", "stop"), T(";", ";")], [T("}", "}")], [T("id", "else")] + blk]
    for lead in leads:
        for h in heads:
            for tm in terms:
                for tl in tails:
                    if tl and (lead and lead[-1][0] != "{") and tl[0][0] == "}":
                        continue
                    yield lead + h + tm + tl


def structural_mutants(rng, toks, n):
    """Edits of whole constructs: a balanced block replaced by ';', a ';' replaced by an empty block, a
    balanced test list replaced by a single test or emptied, elsif<->else<->if swapped."""
    out = []
    idx_open = [i for i, t in enumerate(toks) if t[0] == "{"]
    idx_semi = [i for i, t in enumerate(toks) if t[0] == ";"]
    idx_par = [i for i, t in enumerate(toks) if t[0] == "("]
    idx_kw = [i for i, t in enumerate(toks) if t[0] == "id" and t[1].lower() in ("if", "elsif", "else")]

    def match(i, o, c):
        d = 0
        for j in range(i, len(toks)):
            if toks[j][0] == o:
                d += 1
            elif toks[j][0] == c:
                d -= 1
                if d == 0:
                    return j
        return None
    for _ in range(n):
        kind = rng.choice(["blk2semi", "semi2blk", "emptylist", "kwswap", "blk2none"])
        t = None
        if kind in ("blk2semi", "blk2none") and idx_open:
            i = rng.choice(idx_open)
            j = match(i, "{", "}")
            if j is not None:
                t = toks[:i] + ([T(";", ";")] if kind == "blk2semi" else []) + toks[j + 1:]
        elif kind == "semi2blk" and idx_semi:
            i = rng.choice(idx_semi)
            t = toks[:i] + [T("{", "{"), T("}", "}")] + toks[i + 1:]
        elif kind == "emptylist" and idx_par:
            i = rng.choice(idx_par)
            j = match(i, "(", ")")
            if j is not None:
                t = toks[:i + 1] + toks[j:]
        elif kind == "kwswap" and idx_kw:
            i = rng.choice(idx_kw)
            t = list(toks)
            t[i] = T("id", rng.choice([x for x in ("if", "elsif", "else") if x != toks[i][1].lower()]))
        if t is not None:
            out.append((kind, 0, t))
    return out


def sequences(vocab, n):
    for k in range(0, n + 1):
        for seq in itertools.product(vocab, repeat=k):
            yield list(seq)


# ---------------------------------------------------------------- grammar-directed valid scripts

STR_VALUES = ['"a"', '"INBOX.x"', '"café"', '"with \\"quote\\""', '"back\\\\slash"', '"a,b"', '"[x]"', '"${v}"', '""',
              '"line\\\nbreak"' if False else '"two\nlines"', '"x@example.org"', '"日本"', '"cr\r\nlf inside"']


ML_VALUES = ["text:\nhello\n.\n", "text:\n..dot\nmore\n.\n", "text:\r\nx\r\n.\r\n", "text:\n$x$\n.\n",
             "text:\n.\n", "text:\r\n.\r\n", "text: #c\n.\n", "text:\n\n.\n", "text:\n...three\n.\n", "text:\n....\n..\n.\n",
             "text: \t\nx \n.\n", "text:\n.x\n.\n",
             # lines that look like the terminator but are not, followed by text that would be valid Sieve
             "text:\na\n. \n;\nstop;\nreject text:\nb\n.\n", "text:\na\n.\t\n;\nkeep;\nreject text:\nb\n.\n",
             "text:\r\na\r\n. \r\n;\r\nstop;\r\nreject text:\r\nb\r\n.\r\n", "text:\na\n .\n;\nstop;\nreject text:\nb\n.\n",
             "text:\na\n.;\nstop;\nreject text:\nb\n.\n", "text:\na\n..\n;\nstop;\nreject text:\nb\n.\n"]


def gen_string(rng, ty):
    if ty == "s":
        r = rng.random()
        if r < 0.1:
            return [T("ml", rng.choice(ML_VALUES))]
        return [T("str", rng.choice(STR_VALUES))]
    if ty == "sl":
        r = rng.random()
        if r < 0.4:
            return [T("str", rng.choice(STR_VALUES))]
        n = rng.randrange(1, 4)
        out = [T("[", "[")]
        for i in range(n):
            if i:
                out.append(T(",", ","))
            out.append(T("str", rng.choice(STR_VALUES)))
        out.append(T("]", "]"))
        return out
    if ty == "n":
        return [T("num", rng.choice(["0", "1", "10", "100K", "2M", "3g", "7"]))]
    raise ValueError(ty)


def gen_args(rng, name, needs, avoid_optpos=True, all_tags=False):
    spec = S.SPEC[name]
    out = []
    groups = list(spec["groups"])
    rng.shuffle(groups)
    for grp in groups:
        if not all_tags and rng.random() < 0.5:
            continue
        tag = rng.choice(sorted(grp))
        ptype, pvals, ext = grp[tag]
        if ext:
            needs.add(ext)
        out.append(T("tag", tag))
        if ptype is not None:
            if pvals is not None:
                out.append(T("str", rng.choice(pvals)))
            else:
                out += gen_string(rng, ptype)
    if spec.get("optpos") and not avoid_optpos and rng.random() < 0.5:
        out += gen_string(rng, spec["optpos"])
    for ty in spec["pos"]:
        if isinstance(ty, tuple):
            out.append(T("tag", rng.choice(ty[1])))
        else:
            out += gen_string(rng, ty)
    return out


def repeat_cases():
    """Deterministic: every command/test with an optional tag group, the group filled TWICE with every ordered
    pair of its tags (parameters included), other groups left out.  The later tag wins and only its parameter
    may be kept (C04: the printed form must be accepted and parse to the same tree)."""
    out = []
    for name, spec in sorted(S.SPEC.items()):
        if name in S.OPTPOS or spec.get("test") or spec.get("testlist"):
            continue
        for grp in spec["groups"]:
            tags = sorted(grp)
            for t1 in tags:
                for t2 in tags:
                    needs = set()
                    if spec["ext"]:
                        needs.add(spec["ext"])
                    args = []
                    for tag in (t1, t2):
                        ptype, pvals, ext = grp[tag]
                        if ext:
                            needs.add(ext)
                        args.append(T("tag", tag))
                        if ptype is not None:
                            if pvals is not None:
                                args.append(T("str", pvals[0]))
                            elif ptype == "n":
                                args.append(T("num", "7"))
                            elif ptype == "sl":
                                args += [T("[", "["), T("str", '"p"'), T(",", ","), T("str", '"q"'), T("]", "]")]
                            else:
                                args.append(T("str", '"p"'))
                    for ty in spec["pos"]:
                        if isinstance(ty, tuple):
                            args.append(T("tag", ty[1][0]))
                        elif ty == "n":
                            args.append(T("num", "10"))
                        else:
                            args.append(T("str", '"v"'))
                    req = []
                    if needs:
                        req = [T("id", "require"), T("[", "[")]
                        for i, e in enumerate(sorted(needs)):
                            if i:
                                req.append(T(",", ","))
                            req.append(T("str", '"%s"' % e))
                        req += [T("]", "]"), T(";", ";")]
                    if spec["kind"] == "test":
                        body = [T("id", "if"), T("id", name)] + args + [T("{", "{"), T("id", "stop"), T(";", ";"), T("}", "}")]
                    else:
                        body = [T("id", name)] + args + [T(";", ";")]
                    out.append(req + body)
    return out


def value_shape_cases():
    """Deterministic:
    (a) every multi-line form (empty body, comment after text:, CRLF, dot-stuffed lines, blank lines) as the
        argument of reject / fileinto / vacation / redirect / set;
    (b) for every command x group x tag that takes a parameter: the parameter replaced by a list, a one-item
        list, an identifier, a number, a tag, a string, a parenthesised test, a block, nothing;
    (c) strings with bytes that are not valid UTF-8 in every value position of a few commands;
    (d) tests that are still incomplete when '{' arrives (error position), for every test with tags."""
    out = []
    pre = PREAMBLE
    # (a)
    for ml in ML_VALUES:
        for head in ([T("id", "reject")], [T("id", "fileinto")], [T("id", "redirect")], [T("id", "vacation")],
                     [T("id", "vacation"), T("tag", ":subject"), T("ml", ml)],
                     [T("id", "set"), T("str", '"v"')]):
            out.append(pre + head + [T("ml", ml), T(";", ";")])
            out.append(pre + [T("id", "if"), T("id", "true"), T("{", "{")] + head + [T("ml", ml), T(";", ";"), T("}", "}")])
        out.append(pre + [T("id", "if"), T("id", "header"), T("ml", ml), T("ml", ml), T("{", "{"), T("}", "}")])
    # (b)
    wrong = [[T("[", "["), T("str", '"i;octet"'), T("]", "]")], [T("[", "["), T("str", '"gt"'), T(",", ","), T("str", '"x"'), T("]", "]")],
             [T("id", "true")], [T("id", "foo")], [T("num", "7")], [T("tag", ":is")], [T("str", '"zz"')],
             [T("(", "("), T("id", "true"), T(")", ")")], [T("{", "{"), T("}", "}")], [], [T("ml", "text:\nx\n.\n")],
             [T("[", "["), T("]", "]")]]
    for name, spec in sorted(S.SPEC.items()):
        if spec.get("test") or spec.get("testlist"):
            continue
        for grp in spec["groups"]:
            for tag in sorted(grp):
                ptype, pvals, ext = grp[tag]
                if ptype is None:
                    continue
                pos = []
                for ty in spec["pos"]:
                    pos.append(T("tag", ty[1][0]) if isinstance(ty, tuple) else (T("num", "10") if ty == "n" else T("str", '"v"')))
                for w in wrong:
                    args = [T("tag", tag)] + w + pos
                    if spec["kind"] == "test":
                        out.append(pre + [T("id", "if"), T("id", name)] + args + [T("{", "{"), T("}", "}")])
                    else:
                        out.append(pre + [T("id", name)] + args + [T(";", ";")])
                # the tag left dangling at the very end of the command, alone and after another tag group
                others = [T("tag", t2) for g2 in spec["groups"] if g2 is not grp for t2 in sorted(g2)[:1] if g2[t2][0] is None]
                for lead in ([], others[:1]):
                    args = lead + [T("tag", tag)]
                    if spec["kind"] == "test":
                        out.append(pre + [T("id", "if"), T("id", name)] + args + [T("{", "{"), T("}", "}")])
                    else:
                        out.append(pre + [T("id", name)] + args + [T(";", ";")])
    # (c)
    bad = ['"R\udce9union"', '"\udcff"', '"a\udcc3"', '"\udc80\udc80"', '"ok\udce8 \udce9"']
    for b in bad:
        out.append(pre + [T("id", "fileinto"), T("str", b), T(";", ";")])
        out.append(pre + [T("id", "redirect"), T("str", b), T(";", ";")])
        out.append(pre + [T("id", "if"), T("id", "header"), T("tag", ":is"), T("str", b), T("str", '"v"'), T("{", "{"), T("}", "}")])
        out.append(pre + [T("id", "if"), T("id", "header"), T("tag", ":is"), T("str", '"v"'),
                          T("[", "["), T("str", '"x"'), T(",", ","), T("str", b), T("]", "]"), T("{", "{"), T("}", "}")])
        out.append(pre + [T("id", "vacation"), T("tag", ":subject"), T("str", b), T("str", '"r"'), T(";", ";")])
        out.append(pre + [T("id", "reject"), T("ml", "text:\n" + b.strip('"') + "\n.\n"), T(";", ";")])
        out.append(pre + [T("id", "require"), T("str", b), T(";", ";")])
    # (d)
    for name, spec in sorted(S.SPEC.items()):
        if spec["kind"] != "test" or spec.get("test") or spec.get("testlist"):
            continue
        prefixes = [[]]
        for grp in spec["groups"]:
            for tag in sorted(grp)[:2]:
                ptype, pvals, ext = grp[tag]
                a = [T("tag", tag)]
                if ptype is not None:
                    a.append(T("str", pvals[0]) if pvals else (T("num", "7") if ptype == "n" else T("str", '"p"')))
                prefixes.append(a)
        if spec["pos"]:
            first = spec["pos"][0]
            prefixes.append([T("tag", first[1][0]) if isinstance(first, tuple) else (T("num", "10") if first == "n" else T("str", '"v"'))])
        for a in prefixes:
            for tail in ([T("{", "{")], [T("{", "{"), T("id", "stop"), T(";", ";"), T("}", "}")], [T(";", ";")], [T(",", ",")],
                         [T(")", ")")], []):
                out.append(pre + [T("id", "if"), T("id", name)] + a + tail)
                out.append(pre + [T("id", "if"), T("id", "anyof"), T("(", "("), T("id", name)] + a + tail)
    return out


def brace_after_prefix_cases():
    """(tokens, index of the '{'): `if <test> <some leading arguments> {` -- everything before the '{' is a prefix of
    a valid script, so an error can only be reported at the '{' or later (C18)."""
    out = []
    for name, spec in sorted(S.SPEC.items()):
        if spec["kind"] != "test" or spec.get("test") or spec.get("testlist"):
            continue
        need = [spec["ext"]] if spec["ext"] else []
        prefixes = [([], [])]
        for grp in spec["groups"]:
            for tag in sorted(grp):
                ptype, pvals, ext = grp[tag]
                a = [T("tag", tag)]
                if ptype is not None:
                    a.append(T("str", pvals[0]) if pvals else (T("num", "7") if ptype == "n" else T("str", '"p"')))
                prefixes.append((a, [ext] if ext else []))
        base = list(prefixes)
        for (a, e1) in base[1:4]:
            for (b, e2) in base[4:7]:
                prefixes.append((a + b, e1 + e2))
        for a, exts in prefixes:
            req = []
            allx = sorted(set(need + exts))
            if allx:
                req = [T("id", "require"), T("[", "[")]
                for i, e in enumerate(allx):
                    if i:
                        req.append(T(",", ","))
                    req.append(T("str", '"%s"' % e))
                req += [T("]", "]"), T(";", ";")]
            for wrap in ([], [T("id", "not")], [T("id", "anyof"), T("(", "(")]):
                head = req + [T("id", "if")] + wrap + [T("id", name)] + a
                for tail in ([T("{", "{")], [T("{", "{"), T("id", "stop"), T(";", ";"), T("}", "}")]):
                    out.append((head + tail, len(head)))
    return out


TESTS = [n for n, d in S.SPEC.items() if d["kind"] == "test"]
ACTIONS = [n for n, d in S.SPEC.items() if d["kind"] != "test" and not d["block"] and n != "require"]


def gen_test(rng, needs, depth, avoid):
    choices = [t for t in TESTS if not (avoid and t in S.OPTPOS)]
    name = rng.choice(choices)
    spec = S.SPEC[name]
    if spec["ext"]:
        needs.add(spec["ext"])
    if spec.get("test"):
        if depth <= 0:
            return [T("id", name), T("id", "true")]
        return [T("id", name)] + gen_test(rng, needs, depth - 1, avoid)
    if spec.get("testlist"):
        n = rng.randrange(1, 4) if depth > 0 else 1
        out = [T("id", name), T("(", "(")]
        for i in range(n):
            if i:
                out.append(T(",", ","))
            out += gen_test(rng, needs, depth - 1, avoid) if depth > 0 else [T("id", "true")]
        out.append(T(")", ")"))
        return out
    return [T("id", name)] + gen_args(rng, name, needs, avoid_optpos=avoid)


def gen_block(rng, needs, depth, avoid):
    out = [T("{", "{")]
    for _ in range(rng.randrange(0, 3)):
        out += gen_command(rng, needs, depth - 1, avoid)
    out.append(T("}", "}"))
    return out


def gen_command(rng, needs, depth, avoid):
    if depth > 0 and rng.random() < 0.4:
        out = [T("id", "if")] + gen_test(rng, needs, depth, avoid) + gen_block(rng, needs, depth, avoid)
        while rng.random() < 0.3:
            out += [T("id", "elsif")] + gen_test(rng, needs, depth, avoid) + gen_block(rng, needs, depth, avoid)
        if rng.random() < 0.4:
            out += [T("id", "else")] + gen_block(rng, needs, depth, avoid)
        return out
    choices = [a for a in ACTIONS if not (avoid and (a in S.OPTPOS or a == "keep"))] + (["keep"] if avoid else [])
    name = rng.choice(choices)
    spec = S.SPEC[name]
    if spec["ext"]:
        needs.add(spec["ext"])
    if name == "keep" and avoid:
        return [T("id", "keep"), T(";", ";")]
    return [T("id", name)] + gen_args(rng, name, needs, avoid_optpos=avoid) + [T(";", ";")]


def require_tokens(rng, needs):
    needs = sorted(needs)
    if not needs:
        return []
    rng.shuffle(needs)
    if len(needs) == 1 and rng.random() < 0.5:
        return [T("id", "require"), T("str", '"%s"' % needs[0]), T(";", ";")]
    out = [T("id", "require"), T("[", "[")]
    for i, e in enumerate(needs):
        if i:
            out.append(T(",", ","))
        out.append(T("str", '"%s"' % e))
    return out + [T("]", "]"), T(";", ";")]


def gen_script(rng, avoid_optpos=True, depth=3, ncmds=None):
    """A valid script (token list) with the extensions it needs required up front."""
    needs = set()
    body = []
    for _ in range(ncmds or rng.randrange(1, 5)):
        body += gen_command(rng, needs, depth, avoid_optpos)
    return require_tokens(rng, needs) + body, needs


def mutants(rng, toks, n):
    """Single-edit mutants: delete, duplicate, swap adjacent, replace by a vocabulary token."""
    out = []
    for _ in range(n):
        if not toks:
            break
        i = rng.randrange(len(toks))
        kind = rng.choice(["del", "dup", "swap", "rep", "ins"])
        t = list(toks)
        if kind == "del":
            del t[i]
        elif kind == "dup":
            t.insert(i, t[i])
        elif kind == "swap" and i + 1 < len(t):
            t[i], t[i + 1] = t[i + 1], t[i]
        elif kind == "rep":
            t[i] = rng.choice(FULL_VOCAB)
        else:
            t.insert(i, rng.choice(FULL_VOCAB))
        out.append((kind, i, t))
    return out
