"""Checks for the filter-factory properties C06 C11 C12 C19 (and the factory part of C13)."""
import itertools
import json

import common
import factory_impl as F
import sieve_impl as I
import sieve_spec as S
from common import hx, unhx

NAMES = ["a", "b", "c"]


def run_sequence(drv, ops):
    """Run ops on the real FiltersSet, the model and the reference list; returns per-step records."""
    from sievelib import factory
    fs = factory.FiltersSet("t")
    drv.ask("reset")
    steps = []
    for op in ops:
        ri = F.apply_op(fs, op, None)
        line = drv.ask("op " + F.op_tokens(op))
        rm, dm, rs, ds = [x.strip() for x in line.split("|")]
        di = F.dump(fs)
        obs = {}
        for n in NAMES:
            obs[n] = (F.apply_op(fs, ("get", n), None), F.apply_op(fs, ("isdisabled", n), None),
                      drv.ask("get " + hx(n.encode())), drv.ask("isdisabled " + hx(n.encode())))
        steps.append(dict(op=op, impl_ret=ri, model_ret=rm, impl_state=di, model_state=dm, spec_ret=rs, spec_state=ds,
                          obs=obs, rendered=F.render(fs)))
    return steps


def c12_oracle(step, prev_state):
    """The statement of C12 on one step of the real FiltersSet, against the reference list."""
    # the implementation state must abstract to the reference state: name:enabled:content, wrapper iff disabled
    want = step["spec_state"]
    got = []
    if step["impl_state"] != "-":
        for item in step["impl_state"].split(" "):
            name, en, content, desc = item.split(":")
            if en == "1" and content.startswith("p"):
                got.append("%s:1:%s:%s" % (name, content, desc))
            elif en == "0" and content.startswith("w[p") and content.endswith("]") and "," not in content and content.count("w[") == 1:
                got.append("%s:0:%s:%s" % (name, content[2:-1], desc))
            else:
                return "filter %s: enabled flag %s but content %s (flag, wrapper and rendering disagree)" % (unhx(name), en, content)
    got = " ".join(got) if got else "-"
    if got != want:
        return "state %s, an ordered uniquely named list would be %s" % (got, want)
    if step["impl_ret"] != step["spec_ret"]:
        return "returned %s, reference returns %s" % (step["impl_ret"], step["spec_ret"])
    # observers
    names = [x.split(":")[0] for x in want.split(" ")] if want != "-" else []
    if len(set(names)) != len(names):
        return "duplicate names"
    for n, (g, d, _, _) in step["obs"].items():
        ent = next((x for x in (want.split(" ") if want != "-" else []) if x.split(":")[0] == hx(n.encode())), None)
        if ent is None:
            if g != "none" or d != "true":
                return "unknown name %s: getfilter %s, is_filter_disabled %s" % (n, g, d)
        else:
            _, en, content, _ = ent.split(":")
            if g != "content:" + content:
                return "getfilter(%s) returned %s, the filter's own content is %s" % (n, g, content)
            if d != ("false" if en == "1" else "true"):
                return "is_filter_disabled(%s) = %s but enabled = %s" % (n, d, en)
    # rendering: wrapped in `if false` exactly when disabled
    text = step["rendered"]
    for ent in (want.split(" ") if want != "-" else []):
        name, en, content, _ = ent.split(":")
        marker = "# Filter: %s\n" % unhx(name).decode()
        i = text.find(marker)
        if i < 0:
            return "rendering lacks the filter %s" % unhx(name)
        body = text[i + len(marker):]
        body = body[body.find("if"):] if body.startswith("#") else body
        wrapped = body.lstrip().startswith("if false")
        if wrapped != (en == "0"):
            return "rendering of %s is %swrapped in `if false` but enabled = %s" % (unhx(name), "" if wrapped else "not ", en)
    return None


def all_ops():
    ops = []
    for n in NAMES[:2]:
        ops += [("add", n, 1), ("remove", n), ("enable", n), ("disable", n), ("move", n, "up"), ("move", n, "down")]
    ops += [("update", "a", "a", 2), ("update", "a", "b", 3), ("replace", "a", 4, None, None), ("replace", "b", 5, "a", "d"),
            ("add", "c", 6), ("update", "c", "c", 7), ("disable", "c"), ("enable", "c")]
    return ops


def check_C12(report, tier, seed, replay=None):
    rng = common.rng_for(seed, "C12")
    drv = common.Driver("factory")
    report.rule = ("operation sequences over 3 names and 7 operation kinds (add/update/replace/remove/enable/disable/move), "
                   "so that collisions, disabling twice, renaming onto existing names and boundary moves are frequent: all "
                   "sequences up to length 3 (quick) / 4 (thorough) over a 26-operation alphabet exhaustively, random sequences "
                   "up to length 40; after every step the real FiltersSet, the Coq model and the reference ordered list are "
                   "compared (return value, names in order, enabled flags, wrapper, getfilter, is_filter_disabled, rendering); "
                   "non-trivial = sequence of at least 2 operations")
    alphabet = all_ops()
    seqs = []
    depth = 3 if tier == "quick" else 4
    for k in range(1, depth + 1):
        for seq in itertools.product(alphabet, repeat=k):
            if k == depth and tier == "quick" and rng.random() > 0.25:
                continue
            if k == 4 and rng.random() > 0.15:
                continue
            seqs.append(list(seq))
    for _ in range(150 if tier == "quick" else 3000):
        seqs.append([rng.choice(alphabet) for _ in range(rng.randrange(4, 41))])
    for seq in seqs:
        steps = run_sequence(drv, seq)
        report.case(tuple(seq), len(seq) >= 2, {"ops": [list(map(str, o)) for o in seq[:8]], "final": steps[-1]["impl_state"]})
        report.count("len:%d" % min(len(seq), 10))
        prev = "-"
        for i, st in enumerate(steps):
            desc = {"property": "C12", "ops": [list(map(str, o)) for o in seq[:i + 1]]}
            # the property's own oracle (reference list) is evaluated on the implementation whether or not the model agrees
            complaint = c12_oracle(st, prev)
            if complaint:
                report.violation("after %r: %s" % ([tuple(o) for o in seq[:i + 1]], complaint), desc)
            if st["impl_ret"] != st["model_ret"] or st["impl_state"] != st["model_state"] or \
                    any(o[0] != o[2] or o[1] != o[3] for o in st["obs"].values()):
                report.broke("correspondence C12 (FiltersSet model vs implementation)",
                             "after %r: impl %s %s model %s %s obs %r" % (seq[:i + 1], st["impl_ret"], st["impl_state"],
                                                                         st["model_ret"], st["model_state"], st["obs"]), desc)
                break
            if complaint:
                break
            prev = st["spec_state"]
    drv.close()


# =====================================================================================
# generators of filter definitions (the documented condition and action kinds)
# =====================================================================================

C06_VALUES = ["a", "INBOX.x", 'q"uote', "back\\slash", "end\\", "a,b", "[x]", "]", "two\nlines", "café", "日本", "x y",
              '") { discard; } #', "\\\"", "a\rb", "${v}", "", "#c", "/*c*/", "x;y", "text:", "{", "}", "\t", "a'b",
              'a"', "é\\\"", ",", ";"]
C19_VALUES = ["notes", "nothing-special", "a", "toto@toto.com", "two words", "[x]", "x]y[", "café", "日本", "a b c", "list-help", "+0100", "2019-02-26",
              "x;y", "(p)", "{b}", "a'b", "é è", " free ", "winner ", " x"]
COMMA_VALUES = ["a,b", ",", "x, y"]


def pick_value(rng, values):
    return rng.choice(values)


def gen_condition(rng, values, kinds=None, allow_lists=True):
    kinds = kinds or ["header", "header", "nheader", "exists", "notexists", "size", "envelope", "nenvelope", "address", "body",
                      "nbody", "currentdate", "ncurrentdate", "currentdate-value", "true", "false"]
    k = rng.choice(kinds)
    v = lambda: pick_value(rng, values)
    vl = lambda: [v() for _ in range(rng.randrange(1, 3))]
    mt = rng.choice([":is", ":contains", ":matches"])
    if k == "header":
        return (v(), mt, v())
    if k == "nheader":
        return (v(), ":not" + mt[1:], v())
    if k == "exists":
        return ("exists",) + tuple(vl())
    if k == "notexists":
        return ("notexists",) + tuple(vl())
    if k == "size":
        return ("size", rng.choice([":over", ":under"]), rng.choice([1, 100, 2048]))
    if k == "envelope":
        return ("envelope", mt, vl(), vl())
    if k == "nenvelope":
        return ("envelope", ":not" + mt[1:], vl(), vl())
    if k == "address":
        return ("address", mt, vl(), vl())
    if k == "body":
        return ("body", rng.choice([":raw", ":text"]), mt) + tuple(vl())
    if k == "nbody":
        return ("body", rng.choice([":raw", ":text"]), ":not" + mt[1:]) + tuple(vl())
    if k == "currentdate":
        return ("currentdate", ":zone", "+0100", mt, "date") + tuple(vl())
    if k == "ncurrentdate":
        return ("currentdate", ":zone", "+0100", ":not" + mt[1:], "date") + tuple(vl())
    if k == "currentdate-value":
        return ("currentdate", ":zone", "+0100", ":value", rng.choice(["gt", "ge", "lt", "le", "eq", "ne"]), "date") + tuple(vl())
    if k == "true":
        return ("true",)
    return ("false",)


def gen_action(rng, values, simple=False):
    v = lambda: pick_value(rng, values)
    kinds = ["fileinto", "fileinto-copy", "redirect", "redirect-copy", "reject", "keep", "discard", "stop"]
    if not simple:
        kinds += ["fileinto-create", "fileinto-flags", "fileinto-flagslist", "setflag", "addflag", "removeflag", "vacation",
                  "vacation-full"]
    k = rng.choice(kinds)
    if k == "fileinto":
        return ("fileinto", v())
    if k == "fileinto-copy":
        return ("fileinto", ":copy", v())
    if k == "fileinto-create":
        return ("fileinto", ":create", v())
    if k == "fileinto-flags":
        return ("fileinto", ":flags", v(), v())
    if k == "fileinto-flagslist":
        return ("fileinto", ":copy", ":flags", [v(), v()], v())
    if k == "redirect":
        return ("redirect", v())
    if k == "redirect-copy":
        return ("redirect", ":copy", v())
    if k == "reject":
        return ("reject", v())
    if k in ("keep", "discard", "stop"):
        return (k,)
    if k in ("setflag", "addflag", "removeflag"):
        return (k, [v() for _ in range(rng.randrange(1, 3))])
    if k == "vacation":
        return ("vacation", v())
    return ("vacation", ":subject", v(), rng.choice([":days", ":seconds"]), rng.choice([1, 7, 30]), ":from", v(),
            ":addresses", [v(), v()], ":handle", v(), ":mime", v())


def outside_claim(v):
    return isinstance(v, str) and v.startswith(('"', "'"))


def flat_values(x):
    out = []
    for e in x:
        if isinstance(e, (list, tuple)):
            out += flat_values(e)
        elif isinstance(e, str):
            out.append(e)
    return out


def lex_tokens(sdrv, text):
    """Tokens (kind, text) of a script according to the model lexer, comments removed; None on lexical error."""
    line = sdrv.ask("lex " + hx(text))
    toks, status = line.rsplit(" ", 1)
    if status != "ok":
        return None
    out = []
    kind_map = {"identifier": "id", "tag": "tag", "string": "str", "multiline": "ml", "number": "num", "left_bracket": "[",
                "right_bracket": "]", "left_parenthesis": "(", "right_parenthesis": ")", "left_cbracket": "{",
                "right_cbracket": "}", "semicolon": ";", "comma": ","}
    for t in toks.split(","):
        if not t:
            continue
        k, pos, ln = t.rsplit(":", 2)
        if k in ("hash_comment", "bracket_comment"):
            continue
        out.append((kind_map[k], text[int(pos):int(pos) + int(ln)].decode("utf-8", "replace")))
    return out


def unescape(s):
    import re
    return re.sub(r"\\(.)", r"\1", s[1:-1], flags=re.S)


# ------------------------------------------------------------------ the build model (factory/Build.v) against FiltersSet

def ser_v(v):
    if isinstance(v, bool):
        raise ValueError("bool")
    if isinstance(v, int):
        return "i%d" % v
    if isinstance(v, list):
        return "l" + "+".join(hx(e.encode("utf-8")) for e in v)
    return "s" + hx(v.encode("utf-8"))


def ser_t(t):
    return ",".join(ser_v(v) for v in t) if len(t) else "()"


def ser_ts(ts):
    return ";".join(ser_t(t) for t in ts) if ts else "-"


def exc_cat(e):
    return {"UnknownCommand": "err:unknown_command", "ExtensionNotLoaded": "err:ext_not_loaded", "BadArgument": "err:bad_argument",
            "BadValue": "err:bad_value", "FilterAlreadyExists": "exists"}.get(type(e).__name__, "crash")


def mutate_definition(rng, conds, acts):
    """The malformed stream: definitions the factory must refuse, or builds into something else, exactly as the model says."""
    conds = [tuple(c) for c in conds]
    acts = [tuple(a) for a in acts]
    k = rng.randrange(9)
    if k == 0 and acts:
        i = rng.randrange(len(acts)); acts[i] = ("nosuchaction",) + acts[i][1:]
    elif k == 1 and acts:
        i = rng.randrange(len(acts)); acts[i] = acts[i][:1] + (":bogus",) + acts[i][1:]
    elif k == 2:
        i = rng.randrange(len(conds))
        if len(conds[i]) >= 2 and isinstance(conds[i][1], str) and conds[i][1].startswith(":"):
            conds[i] = conds[i][:1] + (":bogus",) + conds[i][2:]
    elif k == 3:
        i = rng.randrange(len(conds)); conds[i] = (rng.choice(["notify", "Notes", "size", "body", "true", "nottrue", "address", "exists"]), ":is", "x")
    elif k == 4 and acts:
        i = rng.randrange(len(acts)); acts[i] = acts[i][:1]                     # required arguments missing
    elif k == 5 and acts:
        i = rng.randrange(len(acts)); acts[i] = acts[i] + ("extra", "more")    # too many: ignored by the factory
    elif k == 6:
        i = rng.randrange(len(conds)); conds[i] = conds[i][:2] if len(conds[i]) > 2 and conds[i][0] == "size" else conds[i]
    elif k == 7 and acts:
        i = rng.randrange(len(acts)); acts[i] = (acts[i][0].upper(),) + acts[i][1:]
    else:
        i = rng.randrange(len(conds))
        if conds[i] and isinstance(conds[i][0], str) and conds[i][0] in ("exists", "size", "envelope", "body", "address", "currentdate"):
            conds[i] = ("not" + conds[i][0],) + conds[i][1:]
    return conds, acts


def build_correspondence(report, pid, rng, drv, n, values, malformed_every=4):
    """Histories of addfilter/updatefilter/disable/enable/move/remove with generated definitions, run on FiltersSet and on
    the extracted model of __create_filter / FiltersSet.tosieve: return values, exception classes, rendered text, requires."""
    from sievelib import factory, commands
    # few names, so that a filter is often disabled and then updated / renamed, added again after a removal, ...
    names = ["f1", "f1", "f1", "f2", "f2", "f3"]
    for i in range(n):
        fs = factory.FiltersSet("t")
        drv.ask("bnew")
        commands.RequireCommand.loaded_extensions = []
        hist = []
        ok = True
        nsteps = rng.randrange(1, 9)
        for step in range(nsteps):
            kind = "add" if step == 0 else rng.choice(["add", "add", "update", "update", "update", "disable", "disable", "enable", "move", "remove"])
            nm = rng.choice(names)
            stop = False
            if kind in ("add", "update"):
                conds = [gen_condition(rng, values) for _ in range(rng.randrange(1, 4))]
                acts = [gen_action(rng, values) for _ in range(rng.randrange(1, 3))]
                malformed = malformed_every and rng.randrange(malformed_every) == 0
                if malformed:
                    conds, acts = mutate_definition(rng, conds, acts)
                    report.count("build:malformed")
                mt = rng.choice(["anyof", "allof"])
                nm2 = rng.choice(names)
                try:
                    r = F.ret_str(fs.addfilter(nm, conds, acts, mt) if kind == "add" else fs.updatefilter(nm, nm2, conds, acts, mt))
                except Exception as e:  # noqa
                    r = exc_cat(e)
                    if r != "exists":
                        stop = True      # the factory may have recorded requirements before raising: the history ends here
                if kind == "add":
                    line = "badd %s %s %s %s" % (hx(nm.encode()), hx(mt.encode()), ser_ts(conds), ser_ts(acts))
                else:
                    line = "bupdate %s %s %s %s %s" % (hx(nm.encode()), hx(nm2.encode()), hx(mt.encode()), ser_ts(conds), ser_ts(acts))
            else:
                if kind == "disable":
                    r = F.ret_str(fs.disablefilter(nm)); line = "bop disable " + hx(nm.encode())
                elif kind == "enable":
                    r = F.ret_str(fs.enablefilter(nm)); line = "bop enable " + hx(nm.encode())
                elif kind == "move":
                    dr = rng.choice(["up", "down"]); r = F.ret_str(fs.movefilter(nm, dr)); line = "bop move %s %s" % (hx(nm.encode()), dr)
                else:
                    r = F.ret_str(fs.removefilter(nm)); line = "bop remove " + hx(nm.encode())
            m = drv.ask(line)
            hist.append(line)
            report.count("build:" + (r if r.startswith("err") or r in ("crash", "exists") else "ok"))
            if r != m:
                report.broke("correspondence %s (build model vs FiltersSet)" % pid,
                             "step %r: implementation %s, model %s" % (line, r, m), {"property": pid, "history": hist})
                ok = False
                break
            if stop:
                ok = False
                break
        report.case(("build", tuple(hist)), True)
        if not ok:
            continue
        text = F.render(fs).encode("utf-8")
        m = drv.ask("brender %s %s" % (hx(b"# Filter: "), hx(b"# Description: ")))
        if m != hx(text):
            report.broke("correspondence %s (build model vs FiltersSet)" % pid,
                         "rendered text differs: implementation %r, model %r" % (text[:400], unhx(m)[:400] if m.startswith("x") else m),
                         {"property": pid, "history": hist, "text": text.decode("utf-8", "replace")})
            continue
        rq = drv.ask("brequires")
        exp = ",".join(hx(x.encode()) for x in fs.requires) or "-"
        if rq != exp:
            report.broke("correspondence %s (build model vs FiltersSet)" % pid, "requires differ: %s vs %s" % (exp, rq),
                         {"property": pid, "history": hist})


# ------------------------------------------------------------------ the read-back model (factory/Read.v) against FiltersSet

def _rv(v):
    if isinstance(v, bool):
        return "b"
    if isinstance(v, int):
        return "i%d" % v
    if isinstance(v, list):
        return "l" + "+".join(hx(e.encode("utf-8")) for e in v)
    return "s" + hx(v.encode("utf-8"))


def _tups(f):
    try:
        r = f()
    except Exception:  # noqa
        return "crash"
    if r is None:
        return None
    return ";".join((",".join(_rv(v) for v in t) if len(t) else "()") for t in r) if r else "-"


def _readback(fs, nm):
    c = _tups(lambda: fs.get_filter_conditions(nm))
    if c is None:
        return "none"
    a = _tups(lambda: fs.get_filter_actions(nm))
    try:
        mtv = fs.get_filter_matchtype(nm)
        mtv = hx(mtv.encode()) if mtv else "none"
    except Exception:  # noqa
        mtv = "crash"
    return "%s | %s | %s" % (c, a, mtv)


def read_correspondence(report, pid, rng, drv, n, values):
    """get_filter_conditions / get_filter_actions / get_filter_matchtype of the implementation against the extracted model
    of walk / args_as_tuple / the negation folding, on sets built through the API (enabled and disabled filters) and on
    the same sets saved and loaded back (trees built by the parser); crashes (AttributeError on list values ...) included."""
    from sievelib import factory, commands
    from sievelib.parser import Parser
    names = ["f1", "f2"]
    for i in range(n):
        fs = factory.FiltersSet("t")
        drv.ask("bnew")
        commands.RequireCommand.loaded_extensions = []
        hist = []
        ok = True
        for step in range(rng.randrange(1, 7)):
            kind = "add" if step == 0 else rng.choice(["add", "update", "update", "disable", "disable", "enable"])
            nm = rng.choice(["f1", "f1", "f1", "f2"])
            if kind in ("add", "update"):
                conds = [gen_condition(rng, values) for _ in range(rng.randrange(1, 4))]
                acts = [gen_action(rng, values) for _ in range(rng.randrange(1, 3))]
                mt = rng.choice(["anyof", "allof"])
                try:
                    if kind == "add":
                        fs.addfilter(nm, conds, acts, mt)
                    else:
                        fs.updatefilter(nm, nm, conds, acts, mt)
                except factory.FilterAlreadyExists:
                    pass
                except Exception:  # noqa
                    ok = False
                line = ("badd %s %s %s %s" % (hx(nm.encode()), hx(mt.encode()), ser_ts(conds), ser_ts(acts)) if kind == "add" else
                        "bupdate %s %s %s %s %s" % (hx(nm.encode()), hx(nm.encode()), hx(mt.encode()), ser_ts(conds), ser_ts(acts)))
            elif kind == "disable":
                fs.disablefilter(nm); line = "bop disable " + hx(nm.encode())
            else:
                fs.enablefilter(nm); line = "bop enable " + hx(nm.encode())
            drv.ask(line)
            hist.append(line)
            if not ok:
                break
        if not ok:
            continue
        report.case(("read", tuple(hist)), True)
        for nm in names:
            exp = _readback(fs, nm)
            got = drv.ask("bread " + hx(nm.encode()))
            report.count("read:" + ("crash" if "crash" in exp else "none" if exp == "none" else "ok"))
            if got != exp:
                report.broke("correspondence %s (read-back model vs FiltersSet)" % pid,
                             "filter %s: implementation %s, model %s" % (nm, exp[:300], got[:300]), {"property": pid, "history": hist})
        if not fs.filters:
            continue
        text = F.render(fs)
        p = Parser()
        if not p.parse(text):
            continue
        fs2 = factory.FiltersSet("t")
        fs2.from_parser_result(p)
        exp = " / ".join("%s = %s" % (hx(f["name"].encode()), _readback(fs2, f["name"])) for f in fs2.filters) or "-"
        got = drv.ask("breadtext %s %s %s" % (hx(b"# Filter: "), hx(b"# Description: "), hx(text.encode("utf-8"))))
        report.count("read:reloaded")
        if got != exp:
            report.broke("correspondence %s (read-back model vs FiltersSet, reloaded set)" % pid,
                         "implementation %s, model %s" % (exp[:400], got[:400]), {"property": pid, "history": hist, "text": text})


# ------------------------------------------------------------------ C06

def check_C06(report, tier, seed, replay=None):
    from sievelib import factory
    rng = common.rng_for(seed, "C06")
    drv = common.Driver("factory")
    sdrv = common.Driver("sieve")
    report.rule = ("filter definitions from the documented condition kinds (header fallback with :is/:contains/:matches and "
                   ":not forms, exists, size, envelope, address, body, currentdate, true/false) and action kinds (fileinto/redirect "
                   "with :copy/:create/:flags, reject, keep, discard, stop, setflag/addflag/removeflag, vacation with all tags), "
                   "values over an alphabet with quotes, backslashes, commas, brackets, newlines, non-ASCII, script fragments; sets "
                   "reached by add/update/replace/disable/enable/move/remove; rendered text: accepted by the parser, strictly valid "
                   "against the frozen signatures, require covers every extension used, token skeleton independent of the values, "
                   "every value is the content of one string token; non-trivial = some value contains a byte outside [A-Za-z0-9.]")
    n = 500 if tier == "quick" else 12000
    for i in range(n):
        fs = factory.FiltersSet("t")
        ops = []
        names = ["f1", "f2", "f3"]
        supplied = []
        skeleton_src = []
        ok_build = True
        for step in range(rng.randrange(1, 6)):
            kind = rng.choice(["add", "add", "add", "update", "disable", "enable", "move", "remove"])
            nm = rng.choice(names)
            try:
                if kind in ("add", "update"):
                    conds = [gen_condition(rng, C06_VALUES) for _ in range(rng.randrange(1, 4))]
                    acts = [gen_action(rng, C06_VALUES) for _ in range(rng.randrange(1, 3))]
                    vals = flat_values(conds) + flat_values(acts)
                    if any(outside_claim(v) for v in vals):
                        continue
                    mtype = rng.choice(["anyof", "allof"])
                    if kind == "add":
                        fs.addfilter(nm, conds, acts, mtype)
                    else:
                        fs.updatefilter(nm, nm, conds, acts, mtype)
                    ops.append((kind, nm, conds, acts, mtype))
                elif kind == "disable":
                    fs.disablefilter(nm)
                    ops.append((kind, nm))
                elif kind == "enable":
                    fs.enablefilter(nm)
                    ops.append((kind, nm))
                elif kind == "move":
                    fs.movefilter(nm, rng.choice(["up", "down"]))
                    ops.append((kind, nm))
                else:
                    fs.removefilter(nm)
                    ops.append((kind, nm))
            except factory.FilterAlreadyExists:
                ops.append((kind, nm, "exists"))
            except Exception as e:  # noqa
                report.violation("building a filter from documented forms raised %s: %s (%r)" % (type(e).__name__, e, ops[-3:] + [(kind, nm)]),
                                 {"property": "C06", "ops": repr(ops), "failing": repr((kind, nm, locals().get("conds"), locals().get("acts")))})
                ok_build = False
                break
        if not ok_build:
            continue
        text = F.render(fs).encode("utf-8")
        allvals = [v for o in ops if o[0] in ("add", "update") and len(o) == 5 for v in flat_values(o[2]) + flat_values(o[3])]
        nontriv = any(not all(ch.isalnum() or ch == "." for ch in v) for v in allvals)
        report.case(text, nontriv, {"ops": repr(ops)[:300], "script": text.decode("utf-8", "replace")[:300]})
        report.count("filters:%d" % len(fs.filters))
        desc = {"property": "C06", "ops": repr(ops), "script": hx(text), "text": text.decode("utf-8", "replace")}
        if not fs.filters:
            continue
        impl, p, detail = I.run_parser(text)
        if not impl.startswith("accept"):
            report.violation("generated script is not accepted by the parser: %s\n%s" % (detail, text.decode("utf-8", "replace")), desc)
            continue
        toks = lex_tokens(sdrv, text)
        v = S.judge(toks) if toks is not None else None
        if v is None or not v.valid or "omitted trailing arguments" in v.unclaimed:
            report.violation("generated script is not strictly valid (%s)\n%s" % (v.why if v else "lexical error", text.decode("utf-8", "replace")), desc)
            continue
        used = set(e for e, _ in v.constructs)
        first = v.tree[0]
        if used:
            req_ok = first.name.lower() == "require" and used <= set(fs.requires)
            if not req_ok:
                report.violation("require %r does not cover the extensions used %r" % (fs.requires, sorted(used)), desc)
                continue
        # values only as string contents: every supplied value of a filter still in the set is the content of a string token
        contents = [unescape(t[1]) for t in toks if t[0] == "str"]
        live = {f["name"] for f in fs.filters}
        last_def = {}
        for o in ops:
            if o[0] in ("add", "update") and len(o) == 5:
                last_def[o[1]] = o
            if o[0] == "remove":
                last_def.pop(o[1], None)
        for nm in live:
            o = last_def.get(nm)
            if not o:
                continue
            for val in flat_values(o[2]) + flat_values(o[3]):
                if val.startswith(":") or val in ("exists", "notexists", "size", "envelope", "address", "body", "currentdate",
                                                  "true", "false", "date") or val in [a[0] for a in o[3]]:
                    continue
                if val not in contents:
                    report.violation("value %r does not appear as the content of a string literal in\n%s" % (val, text.decode("utf-8", "replace")), desc)
                    break
        # skeleton independence: same shape, values replaced
        if i % 4 == 0 and last_def:
            fs2 = factory.FiltersSet("t")
            for nm in [f["name"] for f in fs.filters]:
                o = last_def.get(nm)
                if not o:
                    break
                sub = lambda x: ("v" if isinstance(x, str) and not x.startswith(":") and x not in
                                 ("exists", "notexists", "size", "envelope", "address", "body", "currentdate", "true", "false",
                                  "fileinto", "redirect", "reject", "keep", "discard", "stop", "setflag", "addflag", "removeflag",
                                  "vacation", "gt", "ge", "lt", "le", "eq", "ne") else x)
                deep = lambda x: tuple(deep(e) for e in x) if isinstance(x, tuple) else ([deep(e) for e in x] if isinstance(x, list) else sub(x))
                c2 = [deep(c) for c in o[2]]
                # header fallback: the first element is the header name, keep condition kinds intact
                c2 = [c if o[2][j][0] in ("exists", "notexists", "size", "envelope", "address", "body", "currentdate", "true", "false")
                      else ("v",) + tuple(c[1:]) for j, c in enumerate(c2)]
                c2 = [(o[2][j][0],) + tuple(c[1:]) if o[2][j][0] in ("exists", "notexists", "size", "envelope", "address", "body", "currentdate", "true", "false") else c
                      for j, c in enumerate(c2)]
                a2 = [(o[3][j][0],) + tuple(deep(a)[1:]) for j, a in enumerate(o[3])]
                fs2.addfilter(nm, c2, a2, o[4])
                if not next(f for f in fs.filters if f["name"] == nm)["enabled"]:
                    fs2.disablefilter(nm)
            else:
                t2 = lex_tokens(sdrv, F.render(fs2).encode("utf-8"))
                def sk(ts):
                    # requires only grow over a history (earlier versions of a filter may have needed more): the
                    # skeleton compared is that of the filters, not of the require line
                    if ts and ts[0] == ("id", "require") and (";", ";") in ts:
                        ts = ts[ts.index((";", ";")) + 1:]
                    return [(k, None if k == "str" else x) for k, x in ts]
                # the require line may differ in nothing: same shapes need the same extensions
                if t2 is None or sk(t2) != sk(toks):
                    report.violation("token skeleton depends on the values: %r vs %r" % (sk(toks)[:60], sk(t2)[:60] if t2 else None), desc)
    # correspondence of the quoting model through the public API
    for val in C06_VALUES + [rng.choice(C06_VALUES) + rng.choice(C06_VALUES) for _ in range(60)]:
        if outside_claim(val):
            continue
        fs = factory.FiltersSet("q")
        fs.addfilter("n", [("X-H", ":is", val)], [("redirect", val)])
        text = F.render(fs).encode("utf-8")
        q = unhx(drv.ask("quote_if_necessary " + hx(val.encode("utf-8"))))
        report.case(("quote", val), True)
        if b'header :is "X-H" ' + q + b")" not in text or b"redirect " + q + b";" not in text:
            report.broke("correspondence C06 (quoting model vs rendered text)", "value %r model %r text %r" % (val, q, text), {"value": val})
        n = drv.ask("scan_string " + hx(q + b" tail"))
        if n != str(len(q)):
            report.violation("quoted value %r does not lex as one string token" % val, {"property": "C06", "value": val})
    build_correspondence(report, "C06", rng, drv, 400 if tier == "quick" else 12000, C06_VALUES)
    drv.close()
    sdrv.close()


# ------------------------------------------------------------------ C11

C11_NAMES = ["rule1", "Spam filter", "café", "日本語 ルール", "a:b", "[x]", "with #hash", "x" * 40, "semi;colon", "q\"uote",
             "back\\slash", "UPPER lower", "Filter", "Description", "# leading hash", "tab\tinside", "dots...", "a  b"]
PRETEXTS = [("# Filter: ", "# Description: "), ("# rule:", "# about:"), ("#F ", "#D "), ("# Name=", "# Desc="),
            # markers are literal text: characters special to regular expressions / format strings mean nothing
            ("# [rule] ", "# (about) "), ("#* ", "#+ "), ("#%s ", "#{0} "), ("#. ", "#$ "), ("#\\n ", "#\\d "),
            # markers are text, not bytes: non-ASCII prefixes (their length in bytes differs from their length in characters)
            ("# Règle: ", "# À propos: "), ("# Фильтр: ", "# Описание: "), ("#規則 ", "#説明 ")]


LOAD_EXTRA = [
    (("# Filter: ", "# Description: "), 'require "fileinto";\n# Filter: a\n# Filter: b\nfileinto "x";\n'),
    (("# Filter: ", "# Description: "), 'keep;\nstop;\n'),
    (("# Filter: ", "# Description: "), '# Description: only\nif false { stop; }\n'),
    (("# Filter: ", "# Description: "), 'require ["copy"];\nrequire "fileinto";\n# Filter: x \n#Filter: y\nif true {\n    fileinto :copy "a";\n}\n# trailing\n'),
    (("# Filter: ", "# Description: "), '# Filter: n\n# Description: d\n# Filter: m\nif false {\n    if true {\n        stop;\n    }\n}\nelse { keep; }\n'),
    (("#F ", "#D "), '#F a #F b\n#D x#D \nif false {}\n'),
    (("# rule:", "# about:"), 'require ["fileinto", "fileinto", "\\"copy\\""];\n# rule:r1\n# about:\nif anyof (true) {\n    keep;\n}\n'),
    (("# Filter: ", "# Description: "), '# Filter: a\n/* c */ if false { stop; } # Filter: late\nstop;\n'),
]


def check_C11(report, tier, seed, replay=None):
    from sievelib import factory
    from sievelib.parser import Parser
    rng = common.rng_for(seed, "C11")
    drv = common.Driver("factory")
    report.rule = ("sets reached by sequences of addfilter/updatefilter/replacefilter/disablefilter/enablefilter/movefilter/"
                   "removefilter with generated definitions, names and descriptions (single-line text without the marker "
                   "prefixes, not surrounded by whitespace, incl. non-ASCII, quotes, hashes) and custom marker prefixes: "
                   "render -> parse -> from_parser_result gives the same names in order, enabled flags, descriptions, requires, "
                   "per-filter text, and rendering the reloaded set is a fixed point; comment recovery also compared with the "
                   "Coq model (stored_comment / recover); non-trivial = at least two filters or a description")
    n = 400 if tier == "quick" else 10000
    for i in range(n):
        pre = rng.choice(PRETEXTS)
        fs = factory.FiltersSet("t", pre[0], pre[1])
        pool = rng.sample(C11_NAMES, 4)
        ops = []
        prev = None
        for step in range(rng.randrange(1, 9)):
            kind = rng.choice(["add", "add", "add", "update", "replace", "disable", "enable", "move", "remove"])
            nm = rng.choice(pool)
            # a filter that has just been disabled is often edited next (update / replace under the same or a new name)
            if prev is not None and prev[0] == "disable" and rng.random() < 0.5:
                kind, nm = rng.choice(["update", "replace"]), prev[1]
            prev = (kind, nm)
            try:
                if kind in ("add", "update"):
                    conds = [gen_condition(rng, C19_VALUES) for _ in range(rng.randrange(1, 3))]
                    acts = [gen_action(rng, C19_VALUES) for _ in range(rng.randrange(1, 3))]
                    if kind == "add":
                        fs.addfilter(nm, conds, acts, rng.choice(["anyof", "allof"]))
                    else:
                        fs.updatefilter(nm, rng.choice(pool), conds, acts)
                elif kind == "replace":
                    # the replacement is built by the SAME set (add, getfilter, remove), as the docstring of
                    # replacefilter says ("the sieve_filter object as get from FiltersSet.getfilter()"): a command
                    # built by another set would leave this set's requires unaware of the extensions it uses,
                    # which is a misuse of the API, not a defect (false alarm corrected, DESIGN.md section 12)
                    scratch = "\x00scratch"
                    fs.addfilter(scratch, [gen_condition(rng, C19_VALUES)], [gen_action(rng, C19_VALUES, simple=True)])
                    obj = fs.getfilter(scratch)
                    fs.removefilter(scratch)
                    fs.replacefilter(nm, obj, rng.choice([None, rng.choice(pool)]),
                                     rng.choice([None, "", rng.choice(C11_NAMES)]))
                elif kind == "disable":
                    fs.disablefilter(nm)
                elif kind == "enable":
                    fs.enablefilter(nm)
                elif kind == "move":
                    fs.movefilter(nm, rng.choice(["up", "down"]))
                else:
                    fs.removefilter(nm)
                ops.append((kind, nm))
            except factory.FilterAlreadyExists:
                pass
        if not fs.filters:
            continue
        text = F.render(fs)
        desc = {"property": "C11", "ops": repr(ops), "pretexts": pre, "text": text}
        report.case(text, len(fs.filters) > 1 or any(f.get("description") for f in fs.filters),
                    {"ops": repr(ops)[:200], "script": text[:300]})
        report.count("filters:%d" % len(fs.filters))
        p = Parser()
        if not p.parse(text):
            report.violation("rendered set does not parse: %s\n%s" % (p.error, text), desc)
            continue
        fs2 = factory.FiltersSet("t", pre[0], pre[1])
        try:
            fs2.from_parser_result(p)
        except Exception as e:  # noqa
            report.violation("from_parser_result raised %s: %s\n%s" % (type(e).__name__, e, text), desc)
            continue
        a = [(f["name"], f["enabled"], f.get("description") or "") for f in fs.filters]
        b = [(f["name"], f["enabled"], f.get("description") or "") for f in fs2.filters]
        if a != b:
            report.violation("reloaded set differs: saved %r, loaded %r\n%s" % (a, b, text), desc)
            continue
        if fs.requires != fs2.requires:
            report.violation("required extensions differ after reload: %r vs %r" % (fs.requires, fs2.requires), desc)
            continue
        # the filters of the reloaded set render to scripts that parse to the same trees ...
        text2 = F.render(fs2)
        t1, _, _ = I.run_parser(text.encode("utf-8"), "sorted")
        t2, _, d2 = I.run_parser(text2.encode("utf-8"), "sorted")
        if t1 != t2:
            report.violation("the reloaded set renders to a script with different trees (%s):\n%s\n---\n%s" % (d2, text, text2), desc)
            continue
        # ... and rendering the reloaded set is a fixed point of save/load
        p3 = Parser()
        fs3 = factory.FiltersSet("t", pre[0], pre[1])
        if not p3.parse(text2):
            report.violation("rendering of the reloaded set does not parse: %s" % p3.error, desc)
            continue
        fs3.from_parser_result(p3)
        text3 = F.render(fs3)
        if text3 != text2:
            report.violation("rendering the reloaded set is not a fixed point:\n%s\n---\n%s" % (text2, text3), desc)
            continue
        # the loader model (factory/Load.v over the parser model): requirements, names, descriptions, flags, text again
        exp = "%s | %s | %s" % (",".join(hx(x.encode()) for x in fs2.requires) or "-",
                                " ".join("%s:%s:%d" % (hx(f["name"].encode()), hx((f.get("description") or "").encode()),
                                                        1 if f["enabled"] else 0) for f in fs2.filters) or "-",
                                hx(text2.encode("utf-8")))
        got = drv.ask("bload %s %s %s" % (hx(pre[0].encode()), hx(pre[1].encode()), hx(text.encode("utf-8"))))
        if got != exp:
            report.broke("correspondence C11 (loader model vs from_parser_result)", "model %s, implementation %s" % (got[:300], exp[:300]), desc)
        # the comment model: what the parser stored and what from_parser_result recovers
        for f, cmd in zip(fs.filters, [c for c in p.result if c.name != "require"]):
            stored = [bytes(x) for x in cmd.hash_comments]
            want_name = unhx(drv.ask("stored_comment %s %s" % (hx(pre[0].encode()), hx(f["name"].encode()))))
            if want_name not in stored:
                report.broke("correspondence C11 (stored comment model vs parser)", "name %r stored %r model %r" % (f["name"], stored, want_name), desc)
            rec = drv.ask("recover %s %s" % (hx(pre[0].encode()), hx(want_name)))
            if rec != hx(f["name"].encode()):
                report.broke("correspondence C11 (recover model vs from_parser_result)", "name %r model %r" % (f["name"], rec), desc)
    # scripts the factory did not write: several marker lines, unnamed rules, require given as one string, other commands
    for pre, text in LOAD_EXTRA:
        p = Parser()
        report.case(("load", text), True)
        if not p.parse(text):
            exp = "reject"
        else:
            fsx = factory.FiltersSet("t", pre[0], pre[1])
            fsx.from_parser_result(p)
            exp = "%s | %s | %s" % (",".join(hx(x.encode()) for x in fsx.requires) or "-",
                                    " ".join("%s:%s:%d" % (hx(f["name"].encode()), hx((f.get("description") or "").encode()),
                                                            1 if f["enabled"] else 0) for f in fsx.filters) or "-",
                                    hx(F.render(fsx).encode("utf-8")))
        got = drv.ask("bload %s %s %s" % (hx(pre[0].encode()), hx(pre[1].encode()), hx(text.encode("utf-8"))))
        if got != exp:
            report.broke("correspondence C11 (loader model vs from_parser_result)", "text %r: model %s, implementation %s" % (text, got[:300], exp[:300]),
                         {"property": "C11", "text": text, "pretexts": pre})
    build_correspondence(report, "C11", rng, drv, 150 if tier == "quick" else 4000, C19_VALUES)
    drv.close()


# ------------------------------------------------------------------ C19

KF19 = {
    "comma": "readback-splits-on-commas",
    "address": "readback-ignores-address",
}


def norm_cond(c):
    return tuple(list(x) if isinstance(x, list) else x for x in c)


def check_C19(report, tier, seed, replay=None):
    from sievelib import factory
    from sievelib.parser import Parser
    from sievelib import tools
    rng = common.rng_for(seed, "C19")
    drv = common.Driver("factory")
    report.rule = ("definitions from the supported forms: header conditions with string values (also :not forms), exists/"
                   "notexists with one or more names, size, envelope with lists, address, body with transform, currentdate "
                   "with and without relational match, several conditions per filter, anyof/allof; actions with positional "
                   "strings and value-less tags; values over text with commas, spaces, brackets, non-ASCII; read back on the "
                   "original set, while disabled, and on a set reloaded from its rendered script; to_list also compared with "
                   "the Coq model; non-trivial = at least two conditions or a negated one")
    n = 700 if tier == "quick" else 15000
    for i in range(n):
        values = C19_VALUES + (COMMA_VALUES if i % 5 == 0 else [])
        conds = [gen_condition(rng, values, kinds=["header", "nheader", "exists", "notexists", "size", "envelope", "nenvelope",
                                                   "address", "body", "nbody", "currentdate", "ncurrentdate", "currentdate-value"])
                 for _ in range(rng.randrange(1, 4))]
        if i % 11 == 0:
            conds.append(("notsize", ":over", 100))
        acts = []
        for _ in range(rng.randrange(1, 3)):
            a = gen_action(rng, values, simple=True)
            acts.append(a)
        mtype = rng.choice(["anyof", "allof"])
        fs = factory.FiltersSet("t")
        # the filter is created by addfilter, or by updatefilter on an enabled / on a disabled filter
        mode = ["add", "add", "update", "update-disabled"][i % 4]
        report.count("created-by:" + mode)
        try:
            if mode == "add":
                fs.addfilter("f", conds, acts, mtype)
            else:
                fs.addfilter("f", [("Subject", ":is", "old")], [("keep",)])
                if mode == "update-disabled":
                    fs.disablefilter("f")
                fs.updatefilter("f", "f", conds, acts, mtype)
        except Exception as e:  # noqa
            report.violation("addfilter/updatefilter raised %s: %s for %r" % (type(e).__name__, e, (conds, acts)), {"property": "C19", "conditions": repr(conds)})
            continue
        classes = set()
        for c in conds:
            if any("," in v for v in flat_values(c)):
                classes.add("comma")
            if c[0] == "address":
                classes.add("address")
        for a in acts:
            if any("," in v for v in flat_values(a)):
                classes.add("comma")
        neg = any(isinstance(c[0], str) and (c[0].startswith("not") or any(isinstance(x, str) and x.startswith(":not") for x in c)) for c in conds)
        report.case((tuple(map(repr, conds)), tuple(map(repr, acts)), mtype), len(conds) > 1 or neg,
                    {"conditions": repr(conds)[:200], "actions": repr(acts)[:100], "matchtype": mtype})
        desc = {"property": "C19", "conditions": repr(conds), "actions": repr(acts), "matchtype": mtype, "created_by": mode}
        want_c = [norm_cond(c) for c in conds]
        want_a = [tuple(a) for a in acts]

        def readback(fset, label):
            gc = [norm_cond(c) for c in (fset.get_filter_conditions("f") or [])]
            ga = [tuple(a) for a in (fset.get_filter_actions("f") or [])]
            gm = fset.get_filter_matchtype("f")
            if gc != want_c:
                return "%s: conditions read back as %r, supplied %r" % (label, gc, want_c)
            if ga != want_a:
                return "%s: actions read back as %r, supplied %r" % (label, ga, want_a)
            if gm != mtype:
                return "%s: match type read back as %r, supplied %r" % (label, gm, mtype)
            return None
        complaint = None
        try:
            complaint = readback(fs, "original set" + (" (updated while disabled)" if mode == "update-disabled" else ""))
            if complaint is None:
                if mode == "update-disabled" and fs.is_filter_disabled("f") is not True:
                    complaint = "filter updated while disabled is no longer disabled"
                fs.disablefilter("f")
                complaint = complaint or readback(fs, "while disabled")
                fs.enablefilter("f")
                complaint = complaint or readback(fs, "after enabling again")
            if complaint is None:
                p = Parser()
                text = F.render(fs)
                if not p.parse(text):
                    complaint = "rendered script does not parse: %s" % p.error
                else:
                    fs2 = factory.FiltersSet("t")
                    fs2.from_parser_result(p)
                    complaint = readback(fs2, "reloaded set")
        except Exception as e:  # noqa
            complaint = "read-back raised %s: %s" % (type(e).__name__, e)
        if complaint:
            if classes:
                for c in sorted(classes):
                    report.known_hit(KF19[c])
                continue
            report.violation(complaint, desc)
    # to_list model vs tools.to_list
    for _ in range(300):
        vs = [rng.choice(C19_VALUES + COMMA_VALUES) for _ in range(rng.randrange(1, 4))]
        q = unhx(drv.ask("quote_list " + ",".join(hx(v.encode()) for v in vs)))
        got = tools.to_list(q.decode("utf-8"))
        mod = drv.ask("to_list " + hx(q))
        mod = [unhx(x).decode("utf-8") for x in mod.split(",")] if mod != "-" else []
        report.case(("to_list", tuple(vs)), True)
        if got != mod:
            report.broke("correspondence C19 (to_list model vs tools.to_list)", "input %r impl %r model %r" % (q, got, mod), {"values": vs})
    read_correspondence(report, "C19", rng, drv, 300 if tier == "quick" else 8000, C19_VALUES + COMMA_VALUES + ['q"uote', "back\\slash"])
    drv.close()


# ------------------------------------------------------------------ factory part of C13

def c13_jobs(report, rng, pristine, hist):
    """FiltersSet jobs run after some parsing history must behave as in a pristine interpreter."""
    job = [["addfilter", "r", [["Subject", rng.choice([":regex", ":is", ":contains", ":count" if False else ":matches"]), "x.*"]],
            [rng.choice([["fileinto", "a"], ["redirect", ":copy", "b@c"], ["vacation", ":seconds", 5, "r"]])]],
           ["addfilter", "s", [["envelope", rng.choice([":is", ":regex"]), ["to"], ["x"]], ["body", ":raw", ":regex", "z"]],
            [["keep"]]],
           ["disablefilter", "r"]]
    got = F.run_job(job)
    want = pristine.ask("F " + json.dumps(job))
    report.case(("factory-job", json.dumps(job), len(hist)), True)
    report.count("factory-jobs")
    if got != want:
        report.violation("FiltersSet behaviour depends on scripts parsed earlier: after %d parses the job %r gives %r, a pristine "
                         "interpreter gives %r" % (len(hist), job, got, want),
                         {"property": "C13", "history": [hx(x) for x in hist], "job": job})


C13_LIVE_OPS = [
    ["addfilter", "a", [["Subject", ":regex", "x.*"]], [["fileinto", "a"]]],
    ["addfilter", "b", [["envelope", ":regex", ["to"], ["x"]]], [["keep"]]],
    ["addfilter", "c", [["Subject", ":count", "2"]], [["redirect", ":copy", "b@c"]]] if False else
    ["addfilter", "c", [["body", ":raw", ":regex", "z"]], [["redirect", ":copy", "b@c"]]],
    ["addfilter", "d", [["currentdate", ":zone", "+0100", ":value", "gt", "date", "2020-01-01"]], [["stop"]]],
    ["updatefilter", "a", "a", [["To", ":regex", "y+"]], [["fileinto", ":copy", "b"]]],
    ["addfilter", "e", [["Subject", ":regex", "again"]], [["vacation", ":seconds", 5, "r"]]],
    ["addfilter", "f", [["address", ":regex", ["from"], ["k"]]], [["fileinto", ":create", "m"]]],
    ["disablefilter", "a"],
    ["updatefilter", "b", "b", [["envelope", ":regex", ["from"], ["q"]]], [["keep"]]],
]


class C13LiveSet:
    """One FiltersSet that lives through a parsing history: operations are applied between parses; at the end the
    outcomes and the rendered script must equal those of the same operations in a pristine interpreter (where no
    parse happens in between)."""

    def __init__(self):
        from sievelib import factory
        self.fs = factory.FiltersSet("job")
        self.job = []
        self.outs = []

    def step(self, rng):
        op = C13_LIVE_OPS[len(self.job) % len(C13_LIVE_OPS)] if rng.random() < 0.7 else rng.choice(C13_LIVE_OPS)
        self.job.append(op)
        self.outs += F.run_job([op], fs=self.fs, finish=False)

    def finish(self, report, pristine, hist):
        if not self.job:
            return
        got = self.outs + F.run_job([], fs=self.fs)
        want = pristine.ask("F " + json.dumps(self.job))
        report.case(("factory-live-set", json.dumps(self.job), len(hist)), True)
        report.count("factory-live-sets")
        if got != want:
            k = next((i for i, (a, b) in enumerate(zip(got, want)) if a != b), min(len(got), len(want)))
            report.violation("a FiltersSet used between parses depends on them: operations %r interleaved with %d parses give %r at "
                             "position %d, a pristine interpreter gives %r" % (self.job, len(hist), got[k][:200] if k < len(got) else None,
                                                                              k, want[k][:200] if k < len(want) else None),
                             {"property": "C13", "history": [hx(x) for x in hist], "job": self.job})
