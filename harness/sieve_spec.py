"""Independent specification of the supported Sieve language (the oracle of C01/C03/C07).

Written from RFC 5228 (generic grammar, section 8.2), RFC 5232 (imap4flags), 5230/6131 (vacation),
5173 (body), 5260 (date), 5229 (set, without modifiers), 3894 (copy), 5490 (mailbox :create),
5231 (relational), and the property texts — NOT derived from sievelib/commands.py.  The tie between
these frozen signatures and the tables in /repo is checked separately (tables obligation).

Tokens are (kind, text) with kind in: id tag str ml num [ ] ( ) { } ; ,   (comments removed).
"""

MATCH = {":is": (None, None, None), ":contains": (None, None, None), ":matches": (None, None, None),
         ":count": ("s", ['"gt"', '"ge"', '"lt"', '"le"', '"eq"', '"ne"'], "relational"),
         ":value": ("s", ['"gt"', '"ge"', '"lt"', '"le"', '"eq"', '"ne"'], "relational"),
         ":regex": (None, None, "regex")}
COMPARATOR = {":comparator": ("s", ['"i;octet"', '"i;ascii-casemap"'], None)}
ADDRPART = {":localpart": (None, None, None), ":domain": (None, None, None), ":all": (None, None, None)}

# command -> dict(kind, block, ext, groups: list of tag groups, pos: list of positional types, optpos: optional
# leading positional (the imap4flags variable name/list), must_follow)
# positional types: "s" string (quoted or multi-line), "sl" string or list, "n" number, ("tag", {values})
SPEC = {
    "require": dict(kind="control", pos=["sl"]),
    "if": dict(kind="control", block=True, test=True),
    "elsif": dict(kind="control", block=True, test=True, must_follow=("if", "elsif")),
    "else": dict(kind="control", block=True, must_follow=("if", "elsif")),
    "stop": dict(kind="action"),
    "keep": dict(kind="action", groups=[{":flags": ("sl", None, "imap4flags")}]),
    "discard": dict(kind="action"),
    "fileinto": dict(kind="action", ext="fileinto", pos=["s"],
                     groups=[{":copy": (None, None, "copy")}, {":create": (None, None, "mailbox")},
                             {":flags": ("sl", None, "imap4flags")}]),
    "redirect": dict(kind="action", pos=["s"], groups=[{":copy": (None, None, "copy")}]),
    "reject": dict(kind="action", ext="reject", pos=["s"]),
    "setflag": dict(kind="action", ext="imap4flags", pos=["sl"], optpos="s"),
    "addflag": dict(kind="action", ext="imap4flags", pos=["sl"], optpos="s"),
    "removeflag": dict(kind="action", ext="imap4flags", pos=["sl"], optpos="s"),
    "vacation": dict(kind="action", ext="vacation", pos=["s"],
                     groups=[{":subject": ("s", None, None)}, {":days": ("n", None, None)},
                             {":seconds": ("n", None, "vacation-seconds")}, {":from": ("s", None, None)},
                             {":addresses": ("sl", None, None)}, {":handle": ("s", None, None)},
                             {":mime": (None, None, None)}]),
    "set": dict(kind="control", ext="variables", pos=["s", "s"]),
    "address": dict(kind="test", pos=["sl", "sl"], groups=[COMPARATOR, ADDRPART, MATCH]),
    "envelope": dict(kind="test", ext="envelope", pos=["sl", "sl"], groups=[COMPARATOR, ADDRPART, MATCH]),
    "header": dict(kind="test", pos=["sl", "sl"], groups=[COMPARATOR, MATCH]),
    "exists": dict(kind="test", pos=["sl"]),
    "true": dict(kind="test"),
    "false": dict(kind="test"),
    "not": dict(kind="test", test=True),
    "allof": dict(kind="test", testlist=True),
    "anyof": dict(kind="test", testlist=True),
    "size": dict(kind="test", pos=[("tag", (":over", ":under")), "n"]),
    "body": dict(kind="test", ext="body", pos=["sl"],
                 groups=[COMPARATOR, MATCH, {":raw": (None, None, None), ":content": ("sl", None, None),
                                             ":text": (None, None, None)}]),
    "hasflag": dict(kind="test", ext="imap4flags", pos=["sl"], optpos="sl", groups=[COMPARATOR, MATCH]),
    "date": dict(kind="test", ext="date", pos=["s", "s", "sl"],
                 groups=[{":zone": ("s", None, None), ":originalzone": (None, None, None)}, COMPARATOR, MATCH]),
    "currentdate": dict(kind="test", ext="date", pos=["s", "sl"],
                        groups=[{":zone": ("s", None, None)}, COMPARATOR, MATCH]),
}
for _d in SPEC.values():
    _d.setdefault("groups", [])
    _d.setdefault("pos", [])
    _d.setdefault("block", False)
    _d.setdefault("ext", None)

# commands whose optional positional argument sievelib cannot represent (known findings)
OPTPOS = ("setflag", "addflag", "removeflag", "hasflag")


class G:
    """A generic-grammar command or test: name, args (list of generic args), tests (None, or list), block (None or list)."""

    def __init__(self, name, args, tests, tests_paren, block, semicolon):
        self.name, self.args, self.tests, self.tests_paren, self.block, self.semicolon = \
            name, args, tests, tests_paren, block, semicolon


def gparse(toks):
    """RFC 5228 section 8.2: commands = *command ; command = identifier arguments (";" / block);
    arguments = *argument [test / test-list]; argument = string-list / number / tag.
    Returns list of G or None."""
    pos = [0]

    def peek():
        return toks[pos[0]] if pos[0] < len(toks) else (None, None)

    def nxt():
        t = peek()
        pos[0] += 1
        return t

    def p_arguments():
        args = []
        while True:
            k, v = peek()
            if k in ("str", "ml"):
                nxt()
                args.append(("s", v))
            elif k == "num":
                nxt()
                args.append(("n", v))
            elif k == "tag":
                nxt()
                args.append(("tag", v))
            elif k == "[":
                nxt()
                items = []
                while True:
                    k2, v2 = nxt()
                    if k2 not in ("str",):
                        return None
                    items.append(v2)
                    k3, _ = nxt()
                    if k3 == "]":
                        break
                    if k3 != ",":
                        return None
                args.append(("l", items))
            else:
                break
        tests, paren = None, False
        k, v = peek()
        if k == "id":
            t = p_test()
            if t is None:
                return None
            tests = [t]
        elif k == "(":
            nxt()
            paren = True
            tests = []
            while True:
                if peek()[0] != "id":
                    return None
                t = p_test()
                if t is None:
                    return None
                tests.append(t)
                k3, _ = nxt()
                if k3 == ")":
                    break
                if k3 != ",":
                    return None
        return args, tests, paren

    def p_test():
        k, v = nxt()
        if k != "id":
            return None
        r = p_arguments()
        if r is None:
            return None
        return G(v, r[0], r[1], r[2], None, False)

    def p_command():
        k, v = nxt()
        if k != "id":
            return None
        r = p_arguments()
        if r is None:
            return None
        k2, _ = nxt()
        if k2 == ";":
            return G(v, r[0], r[1], r[2], None, True)
        if k2 == "{":
            block = p_block()
            if block is None:
                return None
            return G(v, r[0], r[1], r[2], block, False)
        return None

    def p_block():
        out = []
        while True:
            k, _ = peek()
            if k == "}":
                nxt()
                return out
            if k is None:
                return None
            c = p_command()
            if c is None:
                return None
            out.append(c)

    cmds = []
    while pos[0] < len(toks):
        c = p_command()
        if c is None:
            return None
        cmds.append(c)
    return cmds


def arg_is(a, ty):
    k = a[0]
    if ty == "s":
        return k == "s"
    if ty == "sl":
        return k in ("s", "l")
    if ty == "n":
        return k == "n"
    return False


class Verdict:
    def __init__(self):
        self.valid = True
        self.unclaimed = []      # reasons this script is outside the claim
        self.why = None
        self.optpos_used = False
        self.optpos_cmds = []    # uses of keep/setflag/addflag/removeflag/hasflag (known-finding classes)
        self.constructs = []     # (extension needed, description) in script order


def check_args(g, spec, loaded, v):
    """Arguments against the frozen signature. Sets v.valid False / v.unclaimed."""
    args = list(g.args)
    i = 0
    seen = set()
    groups = spec["groups"]
    while i < len(args) and args[i][0] == "tag":
        tag = args[i][1].lower()
        gi = None
        for j, grp in enumerate(groups):
            if tag in grp:
                gi = j
                break
        if gi is None:
            break
        ptype, pvals, ext = groups[gi][tag]
        if ext is not None:
            v.constructs.append((ext, "%s %s" % (g.name, tag)))
            if ext not in loaded:
                v.valid, v.why = False, "tag %s needs extension %s" % (tag, ext)
                return
        if gi in seen:
            v.unclaimed.append("repeated optional tag group")
        seen.add(gi)
        i += 1
        if ptype is not None:
            if i >= len(args):
                v.unclaimed.append("omitted trailing arguments")
                return
            if not arg_is(args[i], ptype):
                v.valid, v.why = False, "bad parameter type for %s" % tag
                return
            if pvals is not None and args[i][1] not in pvals:
                if args[i][1].lower() in pvals:
                    v.unclaimed.append("parameter value differs by letter case only")
                else:
                    v.valid, v.why = False, "bad parameter value for %s" % tag
                    return
            i += 1
    rest = args[i:]
    pos = list(spec["pos"])
    if spec.get("optpos") and len(rest) == len(pos) + 1 and arg_is(rest[0], spec["optpos"]):
        v.optpos_used = True
        rest = rest[1:]
    for k, a in enumerate(rest):
        if k >= len(pos):
            v.valid, v.why = False, "surplus argument"
            return
        ty = pos[k]
        if isinstance(ty, tuple):
            if a[0] != "tag" or a[1].lower() not in ty[1]:
                v.valid, v.why = False, "bad tag value"
                return
        elif not arg_is(a, ty):
            v.valid, v.why = False, "ill-typed argument"
            return
    if len(rest) < len(pos):
        v.unclaimed.append("omitted trailing arguments")


KNOWN_EXTENSIONS = {"fileinto", "reject", "envelope", "body", "vacation", "vacation-seconds", "date", "variables",
                    "imap4flags", "copy", "mailbox", "relational", "regex"}


def check_node(g, role, loaded, v, prev_name):
    name = g.name.lower()
    spec = SPEC.get(name)
    if spec is None:
        v.valid, v.why = False, "unknown command %s" % name
        return
    if role == "command" and spec["kind"] == "test":
        v.valid, v.why = False, "test %s as command" % name
        return
    if role == "test" and spec["kind"] != "test":
        v.valid, v.why = False, "%s in test position" % name
        return
    if spec["ext"] is not None:
        v.constructs.append((spec["ext"], name))
        if spec["ext"] not in loaded:
            v.valid, v.why = False, "command %s needs extension %s" % (name, spec["ext"])
            return
    if name in OPTPOS or name == "keep":
        v.optpos_cmds.append(name)
    if spec.get("test"):
        if g.tests is None:
            if g.args:
                v.valid, v.why = False, "argument where a test is expected"
                return
            v.unclaimed.append("omitted trailing arguments")
        else:
            if g.tests_paren or len(g.tests) != 1:
                v.valid, v.why = False, "test list where a single test is expected"
                return
            if g.args:
                v.valid, v.why = False, "arguments before the test of %s" % name
                return
            check_node(g.tests[0], "test", loaded, v, None)
            if not v.valid:
                return
    elif spec.get("testlist"):
        if g.tests is None or not g.tests_paren:
            v.valid, v.why = False, "%s needs a parenthesised test list" % name
            return
        if g.args:
            v.valid, v.why = False, "arguments before the test list"
            return
        for t in g.tests:
            check_node(t, "test", loaded, v, None)
            if not v.valid:
                return
    else:
        if g.tests is not None:
            v.valid, v.why = False, "%s takes no test" % name
            return
        check_args(g, spec, loaded, v)
        if not v.valid:
            return
    if role == "command":
        if spec.get("must_follow") and prev_name not in spec["must_follow"]:
            v.valid, v.why = False, "%s must follow if/elsif" % name
            return
        if spec["block"]:
            if g.block is None:
                v.valid, v.why = False, "%s needs a block" % name
                return
        else:
            if g.block is not None:
                v.valid, v.why = False, "block after %s" % name
                return
        if name == "require":
            for a in g.args:
                items = [a[1]] if a[0] == "s" else (a[1] if a[0] == "l" else [])
                for it in items:
                    nm = it.strip('"')
                    if nm not in KNOWN_EXTENSIONS:
                        v.unclaimed.append("unknown extension name in require")
                    loaded.append(nm)
        if g.block is not None:
            prev = None
            for c in g.block:
                check_node(c, "command", loaded, v, prev)
                if not v.valid:
                    return
                prev = c.name.lower()


def judge(toks):
    """toks: list of (kind, text) without comments. Returns Verdict."""
    v = Verdict()
    if any(0xDC80 <= ord(ch) <= 0xDCFF for k, x in toks for ch in x):
        # a byte that is not valid UTF-8 (carried as a surrogate escape by the generators): lexical error
        v.valid, v.why = False, "invalid UTF-8"
        v.tree = None
        return v
    tree = gparse(toks)
    v.tree = tree
    if tree is None:
        v.valid, v.why = False, "not in the generic grammar"
        return v
    loaded = []
    prev = None
    for c in tree:
        check_node(c, "command", loaded, v, prev)
        if not v.valid:
            return v
        prev = c.name.lower()
    return v
