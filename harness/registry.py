"""Which machinery decides which property."""
import ms_checks
import sieve_checks
import factory_checks

MS_COQ = ["ms/Driver.vo"]
SV_COQ = ["sieve/Printer.vo", "gen/GenTables.vo"]

def _ms(run, technique, text, note="Kernel + extraction + correspondence check; CPython re/bytes builtins modelled in coq/lib/Bytes.v; the reference server (coq/ms/Server.v) stands for real servers."):
    return {"level": "proof", "coq": MS_COQ, "drivers": ["ms"], "run": run, "technique": technique,
            "level_text": text, "level_note": note}


def _sv(run, technique, text, level="proof", note="Kernel + table translator (tools/gen_tables.py regenerates coq/gen/GenTables.v from sievelib/commands.py and parser.py on every run) + extraction + correspondence check; CPython re engine and str/bytes builtins modelled by hand-translated scanners (coq/sieve/Lexer.v, coq/lib/Bytes.v); the frozen signatures of harness/sieve_spec.py are the definition of valid."):
    return {"level": level, "coq": SV_COQ, "drivers": ["sieve"], "run": run, "technique": technique,
            "level_text": text, "level_note": note}


PENDING = ("Executable Coq model tied to the implementation by the correspondence check, plus the property's own oracle evaluated "
           "directly on the implementation; the unbounded theorems for this property are not finished, so the level is 'other' "
           "(model-based differential testing), not 'proof'. ")

CHECKS = {
    "C08": _ms(ms_checks.check_C08, "Coq proof (writer/strict-parser round trip) + model/client correspondence on bytes written",
               "Theorem C08_one_command: for every verb and argument list the strict RFC 5804 parser applied to the bytes the writer model produces returns exactly that verb and those argument values with nothing left over; the writer model is tied to managesieve.py by comparing the bytes written by the extracted model and by the real client, and the strict parser (extracted) is run on the bytes the real client writes."),
    "C09": _ms(ms_checks.check_C09, "Coq model of the reply reader + correspondence and direct oracle over the RFC 5804 reply grammar",
               "Status-reply mirror: model of __read_line/__parse_status_text/__read_response tied to the client by differential runs over generated replies; the property (success iff OK, failure with errcode/errmsg iff NO, Error iff BYE, reply consumed exactly) is evaluated on the real client for every generated reply, also at each step of the emulated rename."),
    "C05": {"level": "proof", "coq": MS_COQ, "drivers": ["ms"], "run": ms_checks.check_C05,
            "technique": "Coq proof (induction over interaction trees and chunk lists) + model/client correspondence",
            "level_text": "Theorem C05_segmentation: for every client program (every operation) and every two segmentations of the same reply bytes the outcome, client state and unread stream agree; the hand-written client model is tied to managesieve.py by differential runs of the extracted model and the real client on generated reply streams under exhaustive one/two-cut and fixed/random chunkings, and the property itself is evaluated directly on the client.",
            "level_note": "Kernel + extraction + correspondence check; recv() modelled as returning a non-empty prefix of the pending bytes or timing out; CPython re/bytes builtins modelled in coq/lib/Bytes.v."},
    "C10": _ms(ms_checks.check_C10, "Coq proof (trace invariant over interaction trees) + generated method inventory obligation + correspondence",
               "Theorem C10_guarded / C10_tls_first over the client model: every script-management command in any trace is written under an authenticated client state set only by an AUTHENTICATE that ended with OK on the same connection; with STARTTLS no AUTHENTICATE precedes the handshake. The method inventory of managesieve.Client is regenerated from the source on every run (tools/gen_static.py) and the obligation that every method sending a script verb carries authentication_required is re-checked by vm_compute. Histories and handshake faults are run on the real client against the reference server."),
    "C14": _ms(ms_checks.check_C14, "Coq model of emulated rename against the reference server + exhaustive fault enumeration on the real client",
               "Emulated rename safety: exhaustive enumeration (initial states x fault placement x bodies) of the real client and of the model client against the extracted reference server, with the statement of C14 evaluated on the server state before/after; model theorems state the safety conditions on the abstract rename."),
    "C15": dict(_ms(ms_checks.check_C15, "composition of C05/C08/C09/C17 model theorems + session-level correspondence with the reference server",
               PENDING + "Whole sessions: the model client, the real client and the abstract server state are compared after every step of generated sessions (random encodings, permitted NO outcomes, segmentation)."), level="other"),
    "C16": _ms(ms_checks.check_C16, "Coq proofs (mechanism selection spec, base64 round trip, PLAIN/OAUTHBEARER exactness) + correspondence",
               "Theorems: select_mech returns only mechanisms that are both supported and announced, the preferred one and no other when it is implemented, otherwise the first of DIGEST-MD5, PLAIN, LOGIN, OAUTHBEARER announced; b64_decode (b64_encode x) = Some x; the server-side decoders recover exactly (authzid, login, password) / (login, token). The AUTHENTICATE bytes of the real client are parsed and decoded independently for generated capability sets and unicode credentials."),
    "C17": _ms(ms_checks.check_C17, "Coq model of listing/script decoding + correspondence and direct oracle against the reference server",
               "Names and bodies: for generated stores (protocol look-alikes, CR/LF variations, multi-byte) served in every permitted encoding, getscript/listscripts of the real client are compared with the store and with the model client."),
    "C01": _sv(sieve_checks.check_C01, "Coq proof (table interpreter implements the argument specification) over regenerated tables + model/parser correspondence + spec oracle",
               "Theorems (props/C01.v): the table interpreter check_next_arg/iscomplete implements the argument specification [legal] (optional tag groups in any order with typed parameters, then required positionals in order) for every well-formed definition, with the recorded values; instantiated with the tables regenerated from /repo on every run; accepted scripts end with an empty stack, balanced brackets and nothing expected. The full completeness/soundness statements against the RFC 5228 generic grammar are not proved: the executable grammar + frozen signatures oracle is compared with the real parser on the exhaustive token enumeration, generated scripts, layouts and mutants, and the model is compared with the parser on the same inputs.", level="proof"),
    "C02": _sv(sieve_checks.check_C02, "Coq proof (lexer progress, crash-freedom invariant, fuel bound) over regenerated tables + correspondence",
               PENDING, level="other"),
    "C03": _sv(sieve_checks.check_C03, "Coq model of the tree construction + correspondence on trees + independent generic-grammar parser",
               PENDING, level="other"),
    "C04": _sv(sieve_checks.check_C04, "Coq model of tosieve + correspondence on printed text + round trip on the parser",
               PENDING, level="other"),
    "C07": _sv(sieve_checks.check_C07, "Coq proof (gate lemmas, loaded-extension monotonicity, frozen extension table obligation over regenerated tables) + correspondence + independent walk",
               "Theorems (props/C07.v): the loaded-extension set only grows and only by a completed require; a command is instantiated / a slot takes a tag or match type only while its extension is loaded; invariant over all reachable parser states, hence for every accepted input whatsoever every extension needed anywhere in the tree is loaded; vm_compute obligations over the regenerated tables: they cover the frozen RFC list of extension-owned commands/tags/match types and have no blind spot. The removal direction is computed on the model for concrete scripts and checked on the implementation for all (generated valid script, needed extension) pairs with the exact error text.", level="proof"),
    "C13": _sv(sieve_checks.check_C13, "stateless Coq model (parse is a function of the text) + generated state inventory obligation + histories vs pristine interpreter",
               PENDING, level="other"),
    "C18": _sv(sieve_checks.check_C18, "Coq proof (position arithmetic, errors raised at the current token, token-prefix determinism) + correspondence on error_pos",
               "Theorems (props/C18.v): lineno/colno agree with an independent line/column specification (text split at LF); every rejection is reported at the start offset and length of a token of the text, at the place of the lexical error, or at the end of the text; the machine is a fold over the token list that stops at the first failure, so the report depends only on the tokens up to the failing one. The per-category choice of the offending token is exercised on the implementation with the expected offset computed independently (LF/CRLF, multi-byte comments, arbitrary tails).", level="proof"),
    "C20": _sv(sieve_checks.check_C20, "Coq proof generic in the tables (argcheck_correct for every well-formed definition) + correspondence with definitions registered at run time",
               "Theorems (props/C20.v), generic in the definition and in the tables: for every definition of the documented shape the argument interpreter accepts exactly the uses the definition allows and records the arguments under the defined names; a registered command is found in any letter case, demands its extension, leaves other names alone; unregistered names stay unknown; registration preserves table well-formedness. Definitions generated at run time are registered both in the real library and in the model and compared (verdict, tree, re-parsed serialisation).", level="proof"),
    "C12": {"level": "proof", "coq": ["factory/OpsFacts.vo"], "drivers": ["factory"], "run": factory_checks.check_C12,
            "technique": "Coq proof (refinement of the FiltersSet operations to an ordered uniquely-named list, by induction over operation sequences) + model/implementation correspondence",
            "level_text": "Theorems (props/C12.v): every editing operation of the FiltersSet model returns what the reference list operation returns and maps representable sets to the representation of the reference result, for all histories from the empty set with no length bound; in every reachable state the enabled flag, is_filter_disabled and the if-false wrapper agree and getfilter returns the filter's own content; on the reference list names stay unique, update/replace/enable/disable rewrite one entry in place, move swaps with exactly one neighbour, unknown names change nothing. The model is tied to factory.py by comparing, after every step of exhaustive (all sequences up to the bound over 3 names x 7 operation kinds) and random operation sequences, every return value/exception and the whole observable state; the reference list is compared with the implementation directly too.",
            "level_note": "Kernel + extraction + correspondence check; filter contents abstracted to plain command / if-false wrapper (all the editing operations inspect)."},
    "C06": {"level": "other", "coq": ["factory/Text.vo", "sieve/Printer.vo", "gen/GenTables.vo"], "drivers": ["factory", "sieve"], "run": factory_checks.check_C06,
            "technique": "Coq proof (every quoted value lexes as exactly one string token; quote_list token structure) + correspondence of the quoting model + strict validation of generated scripts",
            "level_text": PENDING, "level_note": "Kernel + extraction + correspondence; __create_filter's per-kind assembly is exercised on the implementation (strict validator, require coverage, skeleton independence), not modelled."},
    "C11": {"level": "other", "coq": ["factory/Text.vo"], "drivers": ["factory"], "run": factory_checks.check_C11,
            "technique": "Coq proof (marker comments are recovered exactly: stored_comment/recover/remove_all) + correspondence of the comment model + save/load round trip on the implementation",
            "level_text": PENDING, "level_note": "Kernel + extraction + correspondence; tree equality of reloaded filters rests on C04 and is exercised on the implementation."},
    "C19": {"level": "other", "coq": ["factory/Text.vo"], "drivers": ["factory"], "run": factory_checks.check_C19,
            "technique": "Coq proof (to_list/strip round trip on comma- and quote-free values, refuted with witnesses outside) + correspondence of to_list + read-back on the implementation",
            "level_text": PENDING, "level_note": "Kernel + extraction + correspondence; the per-test args_as_tuple code is exercised on the implementation, not modelled."},
}
