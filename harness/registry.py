"""Which machinery decides which property."""
import ms_checks

MS_COQ = ["ms/Driver.vo"]

CHECKS = {
    "C05": {"level": "proof", "coq": MS_COQ, "drivers": ["ms"], "run": ms_checks.check_C05,
            "technique": "Coq proof (induction over interaction trees and chunk lists) + model/client correspondence",
            "level_text": "Theorem C05_segmentation: for every client program (every operation) and every two segmentations of the same reply bytes the outcome, client state and unread stream agree; the hand-written client model is tied to managesieve.py by differential runs of the extracted model and the real client on generated reply streams under exhaustive one/two-cut and fixed/random chunkings, and the property itself is evaluated directly on the client.",
            "level_note": "Kernel + extraction + correspondence check; recv() modelled as returning a non-empty prefix of the pending bytes or timing out; CPython re/bytes builtins modelled in coq/lib/Bytes.v."},
}
