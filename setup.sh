#!/bin/bash
# Build the framework from files on disk only (offline): translators, full Coq build, drivers.
set -e
cd "$(dirname "$0")"
export PYTHONPATH=/repo PYTHONHASHSEED=0 PYTHONDONTWRITEBYTECODE=1 PYTHONWARNINGS=ignore
for t in tools/gen_tables.py tools/gen_static.py tools/gen_state.py tools/gen_factory.py; do
  if [ -f "$t" ]; then /venv/bin/python "$t"; fi
done
cd coq
coq_makefile -f _CoqProject -o Makefile > /dev/null
# generated files may be absent on a fresh restore; a broken proof must not break setup:
timeout 3000 make -k -j16 || echo "setup: some Coq files did not build (the checks will report which)"
cd ..
/venv/bin/python - <<'PY'
import sys
sys.path.insert(0, "harness")
import common
for d in ("ms", "sieve", "factory"):
    import os
    if os.path.exists(os.path.join(common.COQ, "extract", d + "_model.ml")) and os.path.exists(os.path.join(common.OCAML, d + "_driver.ml")):
        try:
            common.build_driver(d)
            print("driver", d, "built")
        except common.BuildError as e:
            print("driver", d, "FAILED"); print(e.log[-2000:])
PY
echo "setup done"
